#!/usr/bin/env python3
"""tools/seeded_matrix.py [id...]  - run the owning property's check (quick; thorough-sized run count where quick misses) against
every seeded change in /verif/seeded (scratch copies of /repo; /repo itself is never touched) and write /verif/seeded/RESULTS.md:
which change is reported by which oracle, minimised to how many operations, in how many of the runs.
Also used with `--also Cxx` to try a second property's check on a change (a change often breaks more than the property it was written for)."""
import json, os, re, subprocess, sys

VERIF = os.path.dirname(os.path.dirname(os.path.abspath(__file__)))
SEEDED = os.path.join(VERIF, "seeded")


def run(patch, prop, runs=None):
    env = dict(os.environ, TAIL="40")
    if runs:
        env["NIXSIM_RUNS"] = str(runs)
    out = subprocess.run([os.path.join(VERIF, "tools/try_patch.sh"), patch, prop, "quick"], stdout=subprocess.PIPE, stderr=subprocess.STDOUT, text=True, env=env).stdout
    res = {"caught": False, "oracles": [], "min_ops": None, "summary": "", "nondet": "NONDETERMINISTIC" in out}
    for line in out.split("\n"):
        m = re.search(r"oracle=(\S+) op=(\S+) arg_class=(.*?) ops=(\d+) \(from (\d+)\)", line)
        if m:
            res["oracles"].append("%s at %s" % (m.group(1), m.group(2)))
            n = int(m.group(4))
            res["min_ops"] = n if res["min_ops"] is None else min(res["min_ops"], n)
        if line.startswith("VIOLATION"):
            res["caught"] = True
        m = re.search(r"(\d+) runs \((complete|capped)\).*verdicts (\{.*?\})", line)
        if m:
            res["summary"] = "%s runs, %s" % (m.group(1), m.group(3))
        if "BUILD FAILED" in line:
            res["summary"] = "BUILD FAILED"
    return res


def main():
    args = sys.argv[1:]
    also = {}
    ids = []
    i = 0
    while i < len(args):
        if args[i] == "--also":
            also[args[i + 1]] = args[i + 2]
            i += 3
        else:
            ids.append(args[i])
            i += 1
    if not ids:
        ids = sorted(d for d in os.listdir(SEEDED) if os.path.isdir(os.path.join(SEEDED, d)))
    results_path = os.path.join(SEEDED, "results.json")
    results = json.load(open(results_path)) if os.path.exists(results_path) else {}
    for mid in ids:
        d = os.path.join(SEEDED, mid)
        meta = json.load(open(os.path.join(d, "meta.json")))
        prop = meta.get("property", mid.split("-")[0])
        r = run(os.path.join(d, "patch.diff"), prop)
        entry = {"property": prop, "summary": meta.get("summary", ""), "quick": r}
        if not r["caught"]:
            r2 = run(os.path.join(d, "patch.diff"), prop, runs=12000)
            entry["deeper_12000_runs"] = r2
        if mid in also:
            entry["other_check_" + also[mid]] = run(os.path.join(d, "patch.diff"), also[mid])
        results[mid] = entry
        print(mid, "quick:", "CAUGHT" if r["caught"] else "missed", r["oracles"][:2], r["summary"], flush=True)
        json.dump(results, open(results_path, "w"), indent=1, sort_keys=True)
    # markdown
    lines = ["# Seeded changes and what reports them", "",
             "Written by tools/seeded_matrix.py. Every change lives in `seeded/<id>/` (patch.diff, demonstration, meta.json), breaks the property it is filed under, compiles, and passes the repository's 31 test suites.",
             "`quick` = the owning property's quick check run against a scratch copy of /repo with the change applied (seed 1).", "",
             "| id | what the change does | quick check | reporting oracle(s) | minimised to | runs / verdicts |", "|---|---|---|---|---|---|"]
    for mid in sorted(results):
        e = results[mid]
        q = e["quick"]
        status = "reported" if q["caught"] else "not reported"
        extra = ""
        if not q["caught"] and "deeper_12000_runs" in e:
            d2 = e["deeper_12000_runs"]
            extra = "; 12000 runs: " + ("reported (%s)" % ", ".join(sorted(set(d2["oracles"]))[:2]) if d2["caught"] else "not reported")
        for k in e:
            if k.startswith("other_check_"):
                o = e[k]
                extra += "; %s quick: %s" % (k[12:], "reported (%s)" % ", ".join(sorted(set(o["oracles"]))[:2]) if o["caught"] else "not reported")
        lines.append("| %s | %s | %s%s | %s | %s | %s |" % (mid, e["summary"].replace("|", "/")[:260], status, extra, ", ".join(sorted(set(q["oracles"]))[:3]), ("%d ops" % q["min_ops"]) if q["min_ops"] else "", q["summary"]))
    open(os.path.join(SEEDED, "RESULTS.md"), "w").write("\n".join(lines) + "\n")


if __name__ == "__main__":
    main()
