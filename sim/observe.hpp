#ifndef NIXSIM_OBSERVE_HPP
#define NIXSIM_OBSERVE_HPP
#include "node.hpp"
#include <nix.hpp>
namespace sim {
struct ObsOpts {
    bool check_lookups;   // evaluate C03.agree / C03.unique while walking
    bool check_dims;      // evaluate C13.gapfree / C13.sorted-positive while walking
    bool read_data;       // read array data / frame cells / property values in full
    ObsOpts() : check_lookups(false), check_dims(false), read_data(true) {}
};
Node observe(const nix::File &f, const ObsOpts &opt, std::vector<std::string> *viol, uint64_t *getters);
// modification times of every entity (path -> updated_at), gathered separately: they are not part of the document (no property
// promises them across sessions) but a *rejected* call must not move them either (C08)
void observe_updated(const nix::File &f, std::map<std::string, std::string> &out);
std::string variant_str(const nix::Variant &v);
std::string read_array_raw(const nix::DataArray &da, bool &ok);
// observation of a single entity through a given handle (same fragments as observe(); children of blocks, sources and sections are not walked)
Node observe_block(const nix::Block &b); Node observe_array(const nix::DataArray &a); Node observe_frame(const nix::DataFrame &f);
Node observe_tag(const nix::Tag &t); Node observe_mtag(const nix::MultiTag &t); Node observe_group(const nix::Group &g);
Node observe_source(const nix::Source &s); Node observe_section(const nix::Section &s); Node observe_property(const nix::Property &p);
Node observe_dimension(const nix::Dimension &d);     // one descriptor through a given handle (same fragment as an element of an array's "dims")
}
#endif
