// DataArray operations and their reference model (C01), plus attribute setters.
#include "engine.hpp"
#include <cstring>

using namespace nix;

namespace sim {

#define TRY(stmt) do { try { stmt; return 0; } catch (const std::exception &) { return 1; } } while (0)

static const DataType kTypes[] = {DataType::Bool, DataType::Int8, DataType::Int16, DataType::Int32, DataType::Int64,
    DataType::UInt8, DataType::UInt16, DataType::UInt32, DataType::UInt64, DataType::Float, DataType::Double, DataType::String};
int dtype_count() { return 12; }
DataType dtype_by_index(int i) { return kTypes[((unsigned) i) % 12]; }
std::string dtype_name(DataType dt) { return data_type_to_string(dt); }
size_t dtype_size(DataType dt) { return dt == DataType::String ? sizeof(std::string) : data_type_to_size(dt); }

static void put_small(char *p, DataType dt, int64_t v) {
    switch (dt) {
        case DataType::Bool: { bool b = v != 0; memcpy(p, &b, 1); break; }
        case DataType::Int8: { int8_t x = (int8_t) v; memcpy(p, &x, 1); break; }
        case DataType::UInt8: { uint8_t x = (uint8_t) v; memcpy(p, &x, 1); break; }
        case DataType::Int16: { int16_t x = (int16_t) v; memcpy(p, &x, 2); break; }
        case DataType::UInt16: { uint16_t x = (uint16_t) v; memcpy(p, &x, 2); break; }
        case DataType::Int32: { int32_t x = (int32_t) v; memcpy(p, &x, 4); break; }
        case DataType::UInt32: { uint32_t x = (uint32_t) v; memcpy(p, &x, 4); break; }
        case DataType::Int64: { int64_t x = v; memcpy(p, &x, 8); break; }
        case DataType::UInt64: { uint64_t x = (uint64_t) v; memcpy(p, &x, 8); break; }
        case DataType::Float: { float x = (float) v; memcpy(p, &x, 4); break; }
        case DataType::Double: { double x = (double) v; memcpy(p, &x, 8); break; }
        default: break;
    }
}
static double get_as_double(const char *p, DataType dt) {
    switch (dt) {
        case DataType::Bool: { bool b; memcpy(&b, p, 1); return b ? 1 : 0; }
        case DataType::Int8: { int8_t x; memcpy(&x, p, 1); return x; }
        case DataType::UInt8: { uint8_t x; memcpy(&x, p, 1); return x; }
        case DataType::Int16: { int16_t x; memcpy(&x, p, 2); return x; }
        case DataType::UInt16: { uint16_t x; memcpy(&x, p, 2); return x; }
        case DataType::Int32: { int32_t x; memcpy(&x, p, 4); return x; }
        case DataType::UInt32: { uint32_t x; memcpy(&x, p, 4); return x; }
        case DataType::Int64: { int64_t x; memcpy(&x, p, 8); return (double) x; }
        case DataType::UInt64: { uint64_t x; memcpy(&x, p, 8); return (double) x; }
        case DataType::Float: { float x; memcpy(&x, p, 4); return x; }
        case DataType::Double: { double x; memcpy(&x, p, 8); return x; }
        default: return 0;
    }
}
double arr_elem_as_double(const ArrModel &m, size_t i) {
    size_t es = dtype_size(m.dtype);
    return get_as_double(m.raw.data() + i * es, m.dtype);
}

static const char *kStrPool[] = {"", "a", "hello", "gr\xc3\xbc\xc3\x9f", "x y z", "0", "line\nbreak", "tab\t"};
static std::string rand_string(Rng &r) {
    int k = r.range(0, 9);
    if (k == 8) return std::string((size_t) r.range(100, 400), (char) ('a' + r.range(0, 25)));
    if (k == 9) return std::string("s") + std::to_string(r.below(100000));
    return kStrPool[k];
}

// iterate a hyperslab in row-major order; calls fn(linear index in the full array, running index in the slab)
static void for_slab(const std::vector<uint64_t> &ext, const std::vector<uint64_t> &off, const std::vector<uint64_t> &cnt,
                     const std::function<void(size_t, size_t)> &fn) {
    size_t rank = ext.size();
    size_t n = 1; for (auto c : cnt) n *= (size_t) c;
    if (rank == 0 || n == 0) return;
    std::vector<uint64_t> idx(rank, 0);
    for (size_t k = 0; k < n; k++) {
        size_t lin = 0;
        for (size_t d = 0; d < rank; d++) lin = lin * (size_t) ext[d] + (size_t) (off[d] + idx[d]);
        fn(lin, k);
        for (size_t d = rank; d-- > 0;) { if (++idx[d] < cnt[d]) break; idx[d] = 0; }
    }
}

static NDSize to_nd(const std::vector<uint64_t> &v) { NDSize n(v.size(), 0); for (size_t i = 0; i < v.size(); i++) n[i] = v[i]; return n; }

static void model_resize(ArrModel &m, const std::vector<uint64_t> &ne) {
    ArrModel o = m;
    m.extent = ne;
    size_t n = m.nelms();
    size_t es = m.dtype == DataType::String ? 0 : dtype_size(m.dtype);
    if (m.dtype == DataType::String) m.strs.assign(n, ""); else m.raw.assign(n * es, '\0');
    if (o.extent.size() != ne.size() || n == 0 || o.nelms() == 0) return;
    std::vector<uint64_t> cnt(ne.size()), off(ne.size(), 0);
    for (size_t d = 0; d < ne.size(); d++) cnt[d] = ne[d] < o.extent[d] ? ne[d] : o.extent[d];
    std::vector<size_t> src;
    for_slab(o.extent, off, cnt, [&](size_t lin, size_t) { src.push_back(lin); });
    size_t j = 0;
    for_slab(ne, off, cnt, [&](size_t lin, size_t) {
        if (m.dtype == DataType::String) m.strs[lin] = o.strs[src[j]];
        else memcpy(&m.raw[lin * es], &o.raw[src[j] * es], es);
        j++;
    });
}

// choose a random in-bounds slab
static void pick_slab(Rng &r, const std::vector<uint64_t> &ext, std::vector<uint64_t> &off, std::vector<uint64_t> &cnt, bool allow_empty) {
    off.assign(ext.size(), 0); cnt.assign(ext.size(), 0);
    for (size_t d = 0; d < ext.size(); d++) {
        if (ext[d] == 0) { off[d] = 0; cnt[d] = 0; continue; }
        if (r.chance(1, 3)) { off[d] = 0; cnt[d] = ext[d]; continue; }
        off[d] = r.below(ext[d]);
        uint64_t room = ext[d] - off[d];
        cnt[d] = (allow_empty && r.chance(1, 12)) ? 0 : 1 + r.below(room);
    }
}

// fill buffer for a write of n elements in memory type `mt`; returns values as (small int | raw bytes | strings)
struct WriteData {
    std::string raw; std::vector<std::string> strs; std::vector<int64_t> small;
};
static void gen_write(Rng &r, const ArrModel &m, DataType mt, size_t n, WriteData &w) {
    if (mt == DataType::String) { for (size_t i = 0; i < n; i++) w.strs.push_back(rand_string(r)); return; }
    size_t es = dtype_size(mt);
    w.raw.assign(n * es, '\0');
    if (m.smallints || mt != m.dtype) {
        int hi = (m.dtype == DataType::Bool || mt == DataType::Bool) ? 1 : 100;
        for (size_t i = 0; i < n; i++) { int64_t v = r.range(0, hi); w.small.push_back(v); put_small(&w.raw[i * es], mt, v); }
    } else {
        for (size_t i = 0; i < n; i++) {
            uint64_t bits = r.next();
            if (r.chance(1, 8)) { static const uint64_t sp[] = {0, ~0ULL, 0x8000000000000000ULL, 0x7fffffffffffffffULL, 0x7ff0000000000000ULL, 0x7ff8000000000001ULL, 1, 0x3ff0000000000000ULL}; bits = sp[r.below(8)]; }
            if (mt == DataType::Bool) { bool b = bits & 1; memcpy(&w.raw[i * es], &b, 1); }
            else if (mt == DataType::Float) { uint32_t b32 = (uint32_t) bits; if (r.chance(1, 8)) { static const uint32_t s32[] = {0, 0x80000000u, 0x7f800000u, 0xff800000u, 0x7fc00001u, 1, 0x3f800000u, 0x7f7fffffu}; b32 = s32[r.below(8)]; } memcpy(&w.raw[i * es], &b32, 4); }
            else memcpy(&w.raw[i * es], &bits, es);
        }
    }
}

static void model_write(ArrModel &m, DataType mt, const std::vector<uint64_t> &off, const std::vector<uint64_t> &cnt, const WriteData &w) {
    size_t es = m.dtype == DataType::String ? 0 : dtype_size(m.dtype);
    size_t ms = mt == DataType::String ? 0 : dtype_size(mt);
    for_slab(m.extent, off, cnt, [&](size_t lin, size_t k) {
        if (m.dtype == DataType::String) m.strs[lin] = w.strs[k];
        else if (mt == m.dtype) memcpy(&m.raw[lin * es], &w.raw[k * ms], es);
        else put_small(&m.raw[lin * es], m.dtype, w.small[k]);
    });
}

static std::string ext_class(const ArrModel &m) { return "dtype=" + dtype_name(m.dtype) + ",rank=" + std::to_string(m.extent.size()); }

int World::exec_array(const Op &op) {
    const int *a = op.a;
    Rng r(op.sub);
    if (op.kind == OP_arr_label || op.kind == OP_arr_unit) {
        DataArray x = arr_at(a[0], a[1]); if (!x) return 2;
        int variant = ((unsigned) a[2]) % 8;
        if (op.kind == OP_arr_label) {
            arg_class = variant == 0 ? "none" : variant == 1 ? "empty" : "string";
            if (variant == 0) TRY(x.label(nix::none));
            if (variant == 1) TRY(x.label(std::string("")));
            TRY(x.label(std::string("lbl") + std::to_string(op.sub % 50)));
        }
        static const char *units[] = {"mV", "ms", "s", "Hz", "uA", "m/s", "foo", "bar baz"};
        arg_class = variant == 0 ? "none" : variant == 1 ? "empty" : variant >= 6 ? "non-si" : "si";
        if (variant == 0) TRY(x.unit(nix::none));
        if (variant == 1) TRY(x.unit(std::string("")));
        TRY(x.unit(std::string(units[variant])));
    }
    DataArray x = arr_at(a[0], a[1]);
    if (!x) return 2;
    std::string id = x.id();
    if ((op.kind == OP_arr_write_whole || op.kind == OP_arr_append || op.kind == OP_arr_write) && (((unsigned) a[3]) % 24) == 7) {
        // data of the wrong element type (strings for a numeric array, numbers for a string array) offered through the three write
        // entry points; needs no model: whatever the array holds, a refusal must leave it as it was, an acceptance is not predicted
        NDSize ext = x.dataExtent();
        size_t rank = ext.size();
        bool is_str = x.dataType() == DataType::String;
        std::vector<std::string> sv(64, "s"); std::vector<double> dv(64, 1.0);
        const void *buf = is_str ? (const void *) dv.data() : (const void *) sv.data();
        DataType mt = is_str ? DataType::Double : DataType::String;
        // ... or data tagged with an element type the library does not store at all (raw-pointer entry points only)
        int unsupported = op.kind == OP_arr_write_whole ? 0 : (int) r.below(4);
        if (unsupported) { static const DataType un[] = {DataType::Char, DataType::Nothing, DataType::Opaque}; mt = un[unsupported - 1]; buf = dv.data(); }
        arg_class = "dtype=" + dtype_name(x.dataType()) + ",rank=" + std::to_string(rank) + (unsupported ? ",unsupported-eltype,any-array" : ",wrong-eltype,any-array");
        try {
            if (op.kind == OP_arr_write_whole) {
                if (rank != 1) return 2;
                size_t k = (size_t) ext[0] + 1 + r.below(3); if (k > 64) k = 64;
                if (is_str) { dv.resize(k); x.setData(dv); } else { sv.resize(k); x.setData(sv); }
            } else if (op.kind == OP_arr_append) {
                if (!rank) return 2;
                size_t axis = r.below(rank); NDSize c = ext; c[axis] = 1;
                if (c.nelms() == 0 || c.nelms() > 64) return 2;
                x.appendData(mt, buf, c, axis);
            } else {
                if (!rank || ext.nelms() == 0) return 2;
                x.setData(mt, buf, NDSize(rank, 1), NDSize(rank, 0));
            }
        } catch (const std::exception &) { return 1; }
        arr.erase(id); dims.erase(id);
        return 0;
    }
    // everything below works against the model
    auto mit = arr.find(id);
    if (mit == arr.end()) return 2;    // array without a model (created by an op whose outcome was not predictable)
    ArrModel &m = mit->second;
    arg_class = ext_class(m);
    switch (op.kind) {
    case OP_arr_origin: {
        if (((unsigned) a[2]) % 4 == 0) { try { x.expansionOrigin(nix::none); m.has_origin = false; return 0; } catch (const std::exception &) { return 1; } }
        double o = (double) r.range(0, 5);
        try { x.expansionOrigin(o); m.has_origin = true; m.origin = o; return 0; } catch (const std::exception &) { return 1; }
    }
    case OP_arr_poly: {
        if (((unsigned) a[2]) % 4 == 0) { try { x.polynomCoefficients(nix::none); m.poly.clear(); return 0; } catch (const std::exception &) { return 1; } }
        std::vector<double> p; int n = r.range(1, 3);
        for (int i = 0; i < n; i++) p.push_back((double) r.range(0, 3));
        try { x.polynomCoefficients(p); m.poly = p; return 0; } catch (const std::exception &) { return 1; }
    }
    case OP_arr_extent: {
        std::vector<uint64_t> ne = m.extent;
        int variant = ((unsigned) a[2]) % 16;
        if (variant == 1) { ne.push_back(2); arg_class += ",rank-change"; }
        else for (auto &e : ne) { int k = r.range(0, 5); if (k == 0) e = e > 0 ? e - 1 : 0; else if (k == 1) e += 1; else if (k == 2) e = (uint64_t) r.range(0, plan.swarm.big ? 40 : 7); }
        if (variant != 1) must_succeed = "C01.extent";
        try { x.dataExtent(to_nd(ne)); }
        catch (const std::exception &) { return 1; }
        must_succeed.clear();
        if (variant == 1) { arr.erase(id); dims.erase(id); return 0; }   // outcome not predicted
        model_resize(m, ne);
        cnt.inc("array.resize");
        return 0;
    }
    case OP_arr_write: case OP_arr_view: {
        std::vector<uint64_t> off, cntv;
        pick_slab(r, m.extent, off, cntv, true);
        DataType mt = m.dtype;
        int tsel = ((unsigned) a[2]) % 6;
        if (tsel == 1 && m.smallints && m.dtype != DataType::String && m.dtype != DataType::Bool) {
            mt = kTypes[1 + r.below(10)];      // another numeric type
            arg_class += ",as=" + dtype_name(mt);
        }
        int invalid = ((unsigned) a[3]) % 24;
        size_t rank = m.extent.size();
        if (invalid == 1 && rank) { size_t d = r.below(rank); cntv[d] = m.extent[d] - off[d] + 1 + r.below(3); arg_class += ",count-outside"; }
        else if (invalid == 2 && rank) { size_t d = r.below(rank); off[d] = m.extent[d] + r.below(3); if (!cntv[d]) cntv[d] = 1; arg_class += ",offset-outside"; }
        else if (invalid == 3) { off.push_back(0); cntv.push_back(1); arg_class += ",wrong-rank"; }
        else if (invalid == 4) { mt = (m.dtype == DataType::String) ? DataType::Double : DataType::String; arg_class += ",wrong-eltype"; }
        else if (invalid == 5) { static const DataType un[] = {DataType::Char, DataType::Nothing, DataType::Opaque}; mt = un[r.below(3)]; arg_class += ",unsupported-eltype"; }
        else if (invalid == 6 && m.dtype != DataType::String) { mt = m.dtype == DataType::Bool ? kTypes[1 + r.below(10)] : DataType::Bool; arg_class += ",bool-vs-numeric"; }   // whether accepted or refused is the library's choice
        else invalid = 0;
        size_t n = 1; for (auto c : cntv) n *= (size_t) c;
        if (cntv.empty()) n = 0;
        WriteData w;
        std::string zeros;
        if (invalid == 5) zeros.assign(n * 16 + 16, '\0'); else gen_write(r, m, mt, n, w);
        const void *buf = mt == DataType::String ? (const void *) w.strs.data() : (const void *) w.raw.data();
        std::string dummy(16, '\0'); std::vector<std::string> sdummy(1);
        if (n == 0) buf = mt == DataType::String ? (const void *) sdummy.data() : (const void *) dummy.data();
        if (invalid == 5) buf = zeros.data();
        if (!invalid) must_succeed = "C01.read-equals-model";
        if (op.kind == OP_arr_view && !invalid) {
            // write through a DataView whose window is [woff, woff+wcnt) and view-relative offset
            std::vector<uint64_t> woff(rank), wcnt(rank), rel(rank);
            for (size_t d = 0; d < rank; d++) { woff[d] = r.below(off[d] + 1); rel[d] = off[d] - woff[d]; wcnt[d] = rel[d] + cntv[d] + r.below(m.extent[d] - off[d] - cntv[d] + 1); }
            arg_class += ",view";
            try { DataView v(x, to_nd(wcnt), to_nd(woff)); v.setData(mt, buf, to_nd(cntv), to_nd(rel)); }
            catch (const std::exception &) { return 1; }
        } else {
            try { x.setData(mt, buf, to_nd(cntv), to_nd(off)); }
            catch (const std::exception &) { return 1; }
        }
        must_succeed.clear();
        if (invalid) { arr.erase(id); dims.erase(id); return 0; }           // accepted an out-of-contract write: state not predicted
        model_write(m, mt, off, cntv, w);
        cnt.inc("array.write"); if (mt != m.dtype) cnt.inc("array.write_converted");
        return 0;
    }
    case OP_arr_write_whole: {
        if (m.extent.size() != 1) return 2;
        size_t n = (size_t) r.range(0, plan.swarm.big ? 300 : 9);
        WriteData w;
        gen_write(r, m, m.dtype, n, w);
        arg_class += ",whole";
        if ((((unsigned) a[3]) % 24) == 4) {
            // a value of the wrong element type (strings for a numeric array and the other way round), of another length than the array
            size_t k = m.extent[0] + 1 + r.below(3);
            arg_class += ",wrong-eltype";
            try { if (m.dtype == DataType::String) { std::vector<double> v(k, 1.0); x.setData(v); } else { std::vector<std::string> v(k, "s"); x.setData(v); } }
            catch (const std::exception &) { return 1; }
            arr.erase(id); dims.erase(id);      // accepted: not predicted
            return 0;
        }
        must_succeed = "C01.read-equals-model";
        try {
            // DataSet::setData(value) = resize to the value's shape, then write everything
            if (m.dtype == DataType::String) x.setData(w.strs);
            else {
                switch (m.dtype) {
#define WHOLE(T) { std::vector<T> v(n); if (n) memcpy(v.data(), w.raw.data(), n * sizeof(T)); x.setData(v); break; }
                    case DataType::Int8: WHOLE(int8_t) case DataType::Int16: WHOLE(int16_t) case DataType::Int32: WHOLE(int32_t) case DataType::Int64: WHOLE(int64_t)
                    case DataType::UInt8: WHOLE(uint8_t) case DataType::UInt16: WHOLE(uint16_t) case DataType::UInt32: WHOLE(uint32_t) case DataType::UInt64: WHOLE(uint64_t)
                    case DataType::Float: WHOLE(float) case DataType::Double: WHOLE(double)
                    default: return 2;   // vector<bool> has no contiguous storage
#undef WHOLE
                }
            }
        } catch (const std::exception &) { return 1; }
        must_succeed.clear();
        std::vector<uint64_t> ne(1, n), off(1, 0);
        model_resize(m, ne);
        model_write(m, m.dtype, off, ne, w);
        cnt.inc("array.write_whole");
        return 0;
    }
    case OP_arr_append: {
        size_t rank = m.extent.size(); if (!rank) return 2;
        size_t axis = r.below(rank);
        std::vector<uint64_t> cntv = m.extent, off(rank, 0);
        cntv[axis] = (uint64_t) r.range(0, 3);
        int invalid = ((unsigned) a[2]) % 20;
        size_t ax = axis;
        if (invalid == 1) { ax = rank + r.below(2); arg_class += ",bad-axis"; }
        else if (invalid == 2 && rank > 1) { size_t d = (axis + 1) % rank; cntv[d] += 1; arg_class += ",shape-mismatch"; }
        else if (invalid == 3) { cntv.push_back(1); arg_class += ",wrong-rank"; }
        else invalid = 0;
        DataType mt = m.dtype;
        if (((unsigned) a[3]) % 24 == 4) { mt = (m.dtype == DataType::String) ? DataType::Double : DataType::String; arg_class += ",wrong-eltype"; invalid = 4; }
        else if (((unsigned) a[3]) % 24 == 5) { static const DataType un[] = {DataType::Char, DataType::Nothing, DataType::Opaque}; mt = un[r.below(3)]; arg_class += ",unsupported-eltype"; invalid = 5; }
        else if (((unsigned) a[3]) % 24 == 6 && m.dtype != DataType::String) { mt = m.dtype == DataType::Bool ? kTypes[1 + r.below(10)] : DataType::Bool; arg_class += ",bool-vs-numeric"; invalid = 6; }
        size_t n = 1; for (auto c : cntv) n *= (size_t) c;
        WriteData w;
        std::string zeros;
        if (invalid == 5) zeros.assign(n * 16 + 16, '\0'); else gen_write(r, m, mt, n, w);
        std::string dummy(16, '\0'); std::vector<std::string> sdummy(1);
        const void *buf = mt == DataType::String ? (const void *) (n ? w.strs.data() : sdummy.data()) : (const void *) (n ? w.raw.data() : dummy.data());
        if (invalid == 5) buf = zeros.data();
        if (!invalid) must_succeed = "C01.read-equals-model";
        try { x.appendData(mt, buf, to_nd(cntv), ax); }
        catch (const std::exception &) { return 1; }
        must_succeed.clear();
        if (invalid) { arr.erase(id); dims.erase(id); return 0; }
        std::vector<uint64_t> ne = m.extent;
        off[axis] = ne[axis]; ne[axis] += cntv[axis];
        model_resize(m, ne);
        model_write(m, mt, off, cntv, w);
        cnt.inc("array.append");
        return 0;
    }
    case OP_arr_read: case OP_arr_read_cal: {
        std::vector<uint64_t> off, cntv;
        pick_slab(r, m.extent, off, cntv, false);
        size_t n = 1; for (auto c : cntv) n *= (size_t) c;
        if (cntv.empty() || n == 0) return 2;
        bool cal = op.kind == OP_arr_read_cal;
        if (m.dtype == DataType::String) {
            if (cal && (m.has_origin || !m.poly.empty())) return 2;
            std::vector<std::string> got(n, std::string("\x01never-assigned"));
            try { if (cal) x.getData(DataType::String, got.data(), to_nd(cntv), to_nd(off)); else x.getDataDirect(DataType::String, got.data(), to_nd(cntv), to_nd(off)); }
            catch (const std::exception &e) { fail("C01.read-equals-model", std::string("in-bounds read threw: ") + e.what()); return 1; }
            bool bad = false; size_t at = 0;
            for_slab(m.extent, off, cntv, [&](size_t lin, size_t k) { if (!bad && got[k] != m.strs[lin]) { bad = true; at = lin; } });
            cnt.inc("array.read");
            if (bad) fail("C01.read-equals-model", "string element " + std::to_string(at) + " read back differs from what was written");
            return 0;
        }
        DataType rt = m.dtype;
        bool transform = cal && (m.has_origin || !m.poly.empty());
        if (transform) {
            if (!m.smallints || m.dtype == DataType::Bool) return 2;
            static const DataType ct[] = {DataType::Double, DataType::Int64, DataType::Int32, DataType::Float};
            rt = ct[r.below(4)];
            arg_class += ",calibrated,as=" + dtype_name(rt);
        } else if (((unsigned) a[2]) % 4 == 1 && m.smallints && m.dtype != DataType::Bool) {
            rt = kTypes[1 + r.below(10)];
            arg_class += ",as=" + dtype_name(rt);
        }
        size_t es = dtype_size(rt);
        std::string got(n * es, '\x5a');
        try { if (cal) x.getData(rt, &got[0], to_nd(cntv), to_nd(off)); else x.getDataDirect(rt, &got[0], to_nd(cntv), to_nd(off)); }
        catch (const std::exception &e) { fail("C01.read-equals-model", std::string("in-bounds read threw: ") + e.what()); return 1; }
        std::string want(n * es, '\0');
        size_t mes = dtype_size(m.dtype);
        for_slab(m.extent, off, cntv, [&](size_t lin, size_t k) {
            if (transform) {
                double xv = get_as_double(&m.raw[lin * mes], m.dtype) - (m.has_origin ? m.origin : 0.0);
                double val = xv;
                if (!m.poly.empty()) { val = 0; double term = 1; for (double c : m.poly) { val += c * term; term *= xv; } }
                put_small(&want[k * es], rt, (int64_t) val);
            } else if (rt == m.dtype) memcpy(&want[k * es], &m.raw[lin * mes], es);
            else put_small(&want[k * es], rt, (int64_t) get_as_double(&m.raw[lin * mes], m.dtype));
        });
        cnt.inc(transform ? "array.read_calibrated" : rt != m.dtype ? "array.read_converted" : "array.read");
        if (got != want) {
            size_t k = 0; while (k < n && !memcmp(&got[k * es], &want[k * es], es)) k++;
            fail(transform ? "C01.calibrated" : "C01.read-equals-model", "element " + std::to_string(k) + " of a " + std::to_string(n) + "-element hyperslab read differs from the model (read as " + dtype_name(rt) + ")");
            return 0;
        }
        if (transform) {
            // raw reads and stored values are unaffected by calibration
            std::string raw(n * mes, '\x5a'), wantraw(n * mes, '\0');
            try { x.getDataDirect(m.dtype, &raw[0], to_nd(cntv), to_nd(off)); } catch (const std::exception &e) { fail("C01.raw-unaffected", std::string("raw read threw: ") + e.what()); return 0; }
            for_slab(m.extent, off, cntv, [&](size_t lin, size_t k) { memcpy(&wantraw[k * mes], &m.raw[lin * mes], mes); });
            if (raw != wantraw) fail("C01.raw-unaffected", "raw read differs from the stored values while a calibration is set");
        }
        return 0;
    }
    default: return 2;
    }
}

// create_array lives here because it initialises the model
int create_array_op(World &w, const Op &op) {
    const int *a = op.a;
    Block b = w.blk(a[0]); if (!b) return 2;
    Rng r(op.sub);
    int mask = w.plan.swarm.dtype_mask ? w.plan.swarm.dtype_mask : 0xfff;
    int ti = ((unsigned) a[2]) % 12;
    for (int k = 0; k < 12 && !(mask & (1 << ti)); k++) ti = (ti + 1) % 12;
    DataType dt = kTypes[ti];
    int invalid = ((unsigned) a[5]) % 30;
    if (invalid == 1) dt = DataType::Nothing; else if (invalid == 2) dt = DataType::Opaque; else if (invalid == 3) dt = DataType::Char; else if (invalid != 4) invalid = 0;
    int rank = 1 + ((unsigned) a[3]) % 4;
    if (r.chance(1, 2)) rank = 1;
    if (invalid == 4) rank = 0;          // a shape without dimensions: nothing can be stored in it
    std::vector<uint64_t> ext((size_t) rank);
    int hi = w.plan.swarm.big ? (rank == 1 ? 3000 : rank == 2 ? 60 : 14) : 6;
    for (auto &e : ext) e = r.chance(1, 10) ? 0 : (uint64_t) r.range(1, hi);
    static const Compression comps[] = {Compression::Auto, Compression::None, Compression::DeflateNormal};
    Compression comp = comps[((unsigned) a[4]) % 3];
    std::string name = w.resolve_name(op.s, "/data/" + b.name() + "/data_arrays");
    if (a[1] == -7 && b.dataArrayCount()) name = b.getDataArray((ndsize_t) 0).id();
    bool dup = b.hasDataArray(name);
    bool badname = name.empty() || name.find('/') != std::string::npos;
    std::string type = w.pick_type(a[1]);
    w.arg_class = std::string(dup ? "dup" : badname ? "bad-name" : type.empty() ? "empty-type" : invalid == 4 ? "rank-0-shape" : invalid ? "bad-dtype" : "fresh") + ",dtype=" + ((invalid && invalid != 4) ? std::to_string((int) dt) : dtype_name(dt));
    DataArray x;
    try { x = b.createDataArray(name, type, dt, to_nd(ext), comp); }
    catch (const std::exception &) { return 1; }
    if (invalid || !x) return 0;
    ArrModel m;
    m.dtype = dt; m.extent = ext; m.smallints = r.chance(2, 3); m.has_origin = false; m.origin = 0;
    if (dt == DataType::String) m.strs.assign(m.nelms(), ""); else m.raw.assign(m.nelms() * dtype_size(dt), '\0');
    std::string id = x.id();
    if (w.live.size() < 48) { Kept k; k.kind = 1; k.id = id; k.session = w.session; k.array = x; w.live["1:" + id] = k; }   // the creating handle lives on
    w.arr[id] = m;
    w.dims[id] = std::vector<DimModel>();
    w.cnt.inc("array.create." + dtype_name(dt));
    w.cnt.inc("array.create.rank" + std::to_string(rank));
    w.cnt.inc(comp == Compression::DeflateNormal ? "array.create.deflate" : comp == Compression::None ? "array.create.nocomp" : "array.create.auto");
    return 0;
}

} // namespace sim
