// Dimension descriptor operations and their model (C13).
#include "engine.hpp"
#include <cstring>

using namespace nix;

namespace sim {

static const char *kUnits[] = {"ms", "s", "mV", "Hz", "kHz", "uA", "mV/s", "m/s^2", "N*m", "kg*m^2/s^2"};     // atomic and compound SI units
static const char *pick_unit(sim::Rng &r) { return kUnits[r.chance(1, 4) ? 6 + r.below(4) : r.below(6)]; }

static std::vector<double> gen_ticks(Rng &r, int variant, bool &sorted) {
    std::vector<double> t;
    int n = r.range(1, 8);
    double v = (double) r.range(-3, 3);
    for (int i = 0; i < n; i++) { t.push_back(v); v += (double) r.range(0, 4) * 0.5; }
    sorted = true;
    if (variant == 1 && n >= 2) {          // unsorted
        size_t i = r.below((uint64_t) n - 1);
        t[i] = t[i + 1] + 1.0 + (double) r.range(0, 3);
        sorted = std::is_sorted(t.begin(), t.end());
    } else if (variant == 2) { t.clear(); }
    return t;
}

static void put_small_d(std::string &raw, size_t i, DataType dt, double v) {
    size_t es = dtype_size(dt);
    char *p = &raw[i * es];
    switch (dt) {
        case DataType::Int8: { int8_t x = (int8_t) v; memcpy(p, &x, 1); break; } case DataType::UInt8: { uint8_t x = (uint8_t) v; memcpy(p, &x, 1); break; }
        case DataType::Int16: { int16_t x = (int16_t) v; memcpy(p, &x, 2); break; } case DataType::UInt16: { uint16_t x = (uint16_t) v; memcpy(p, &x, 2); break; }
        case DataType::Int32: { int32_t x = (int32_t) v; memcpy(p, &x, 4); break; } case DataType::UInt32: { uint32_t x = (uint32_t) v; memcpy(p, &x, 4); break; }
        case DataType::Int64: { int64_t x = (int64_t) v; memcpy(p, &x, 8); break; } case DataType::UInt64: { uint64_t x = (uint64_t) v; memcpy(p, &x, 8); break; }
        case DataType::Float: { float x = (float) v; memcpy(p, &x, 4); break; } case DataType::Double: { double x = v; memcpy(p, &x, 8); break; }
        default: break;
    }
}

int World::exec_dims(const Op &op) {
    const int *a = op.a;
    Rng r(op.sub);
    DataArray x = arr_at(a[0], a[1]);
    if (!x) return 2;
    std::string id = x.id();
    bool have_model = dims.count(id) && arr.count(id);
    switch (op.kind) {
    case OP_dim_delete_all: {
        bool ok;
        try { ok = x.deleteDimensions(); } catch (const std::exception &) { return 1; }
        if (have_model) dims[id].clear();
        if (!ok) cnt.inc("dims.delete_returned_false");
        cnt.inc("dims.delete_all");
        return 0;
    }
    case OP_dim_read: {
        ndsize_t n = x.dimensionCount(); if (!n) return 2;
        try {
            Dimension d = x.getDimension(1 + r.below(n));
            DimensionType t = d.dimensionType();
            if (t == DimensionType::Range) { RangeDimension rd = d.asRangeDimension(); (void) rd.ticks(); if (!rd.ticks().empty()) (void) rd.tickAt(0); (void) rd.axis(2, 0); }
            else if (t == DimensionType::Sample) { SampledDimension sd = d.asSampledDimension(); (void) sd.positionAt(3); (void) sd.axis(3, 1); }
            else if (t == DimensionType::Set) { (void) d.asSetDimension().labels(); }
            return 0;
        } catch (const std::exception &) { return 1; }
    }
    case OP_dim_append: {
        int kind = ((unsigned) a[2]) % 5;
        int variant = ((unsigned) a[3]) % 12;
        DimModel d; d.kind = kind;
        const char *kn[] = {"sampled", "range", "set", "frame", "alias"};
        arg_class = kn[kind];
        if (kind == 0) {
            static const double ivs[] = {0.5, 1.0, 0.001, 3.0, 0.1, 250.0};
            double iv = ivs[r.below(6)];
            if (variant == 1) { iv = 0.0; arg_class += ",interval=0"; } else if (variant == 2) { iv = -1.5; arg_class += ",interval<0"; }
            std::string label = r.chance(1, 2) ? "" : "time";
            std::string unit = r.chance(1, 2) ? "" : pick_unit(r);
            if (variant == 3) { unit = "foo"; arg_class += ",non-si-unit"; }
            double off = r.chance(1, 2) ? 0.0 : (double) r.range(-2, 6) * 0.5;
            try { x.appendSampledDimension(iv, label, unit, off); }
            catch (const std::exception &) { return 1; }
            d.interval = iv; d.has_label = !label.empty(); d.label = label; d.has_unit = !unit.empty(); d.unit = unit;
            d.has_offset = off > 0.0; d.offset = off;
        } else if (kind == 1) {
            bool sorted;
            std::vector<double> t = gen_ticks(r, variant, sorted);
            if (variant == 1 && !sorted) arg_class += ",unsorted-ticks"; else if (variant == 2) arg_class += ",empty-ticks";
            std::string label = r.chance(1, 2) ? "" : "pos";
            std::string unit = r.chance(1, 2) ? "" : pick_unit(r);
            if (variant == 3) { unit = "foo"; arg_class += ",non-si-unit"; }
            try { x.appendRangeDimension(t, label, unit); }
            catch (const std::exception &) { return 1; }
            if (!std::is_sorted(t.begin(), t.end())) { fail("C13.sorted-positive", "appendRangeDimension accepted ticks that are not in ascending order"); return 0; }
            d.ticks = t; d.has_label = !label.empty(); d.label = label; d.has_unit = !unit.empty(); d.unit = unit;
        } else if (kind == 2) {
            std::vector<std::string> l; int n = r.range(0, 4);
            for (int i = 0; i < n; i++) l.push_back(std::string("l") + std::to_string(r.below(5)));
            try { x.appendSetDimension(l); }
            catch (const std::exception &) { return 1; }
            d.labels = l;
        } else if (kind == 3) {
            DataFrame df = frame_at(a[0], a[4]);
            if (variant == 4) { df = DataFrame(); arg_class += ",none-frame"; }
            else if (!df) return 2;
            try {
                if (variant == 5 && df) { unsigned col = (unsigned) df.columns().size() + (unsigned) r.below(4); arg_class += ",column-outside";   /* the first index past the last column included */ x.appendDataFrameDimension(df, col); d.column = (int) col; }
                else if (variant == 6 || !df) { x.appendDataFrameDimension(df); d.column = -1; arg_class += ",no-column"; }
                else if (variant == 7 && df) { std::vector<Column> cols = df.columns(); unsigned c = (unsigned) r.below(cols.size()); x.appendDataFrameDimension(df, cols[c].name); d.column = (int) c; arg_class += ",by-name"; }
                else { unsigned c = (unsigned) r.below(df.columns().size()); x.appendDataFrameDimension(df, c); d.column = (int) c; }
            } catch (const std::exception &) { return 1; }
            if (df) d.frame_id = df.id();
            if (!df || variant == 5) { dims.erase(id); return 0; }     // accepted out-of-contract input: not predicted
        } else {
            // alias: the model can only mirror arrays whose values are small integers
            if (have_model) {
                const ArrModel &m = arr[id];
                bool eligible = m.extent.size() == 1 && m.dtype != DataType::String && m.dtype != DataType::Bool;
                if (eligible && !m.smallints) return 2;
                arg_class += eligible ? (dims[id].empty() ? ",eligible" : ",second-dimension") : ",ineligible-array";
            }
            try { x.appendAliasRangeDimension(); }
            catch (const std::exception &) { return 1; }
        }
        if (have_model) dims[id].push_back(d);
        cnt.inc(std::string("dims.append.") + kn[kind]);
        return 0;
    }
    case OP_dim_set: {
        ndsize_t n = x.dimensionCount(); if (!n) return 2;
        size_t i = (size_t) (((unsigned) a[2]) % n);
        Dimension dim;
        try { dim = x.getDimension(i + 1); } catch (const std::exception &) { return 1; }
        DimModel *dm = (have_model && i < dims[id].size()) ? &dims[id][i] : nullptr;
        int attr = ((unsigned) a[3]) % 4;
        int variant = ((unsigned) a[4]) % 8;
        DimensionType t = dim.dimensionType();
        try {
            if (t == DimensionType::Sample) {
                SampledDimension s = dim.asSampledDimension();
                arg_class = "sampled";
                if (attr == 0) {
                    arg_class += ",label";
                    if (variant == 0) { s.label(nix::none); if (dm) dm->has_label = false; }
                    else if (variant == 1) { arg_class += ",empty"; s.label(std::string("")); if (dm) { dm->has_label = true; dm->label = ""; } }
                    else { std::string l = "L" + std::to_string(r.below(20)); s.label(l); if (dm) { dm->has_label = true; dm->label = l; } }
                } else if (attr == 1) {
                    arg_class += ",unit";
                    if (variant == 0) { s.unit(nix::none); if (dm) dm->has_unit = false; }
                    else if (variant == 1) { arg_class += ",non-si"; s.unit(std::string("foo")); if (dm) { dm->has_unit = true; dm->unit = "foo"; } }
                    else { std::string u = pick_unit(r); s.unit(u); if (dm) { dm->has_unit = true; dm->unit = u; } }
                } else if (attr == 2) {
                    arg_class += ",interval";
                    double iv = (double) r.range(1, 40) * 0.25;
                    if (variant == 1) { iv = 0.0; arg_class += ",interval=0"; } else if (variant == 2) { iv = -2.0; arg_class += ",interval<0"; }
                    s.samplingInterval(iv); if (dm) dm->interval = iv;
                } else {
                    arg_class += ",offset";
                    if (variant == 0) { s.offset(nix::none); if (dm) dm->has_offset = false; }
                    else { double o = (double) r.range(-8, 8) * 0.5; s.offset(o); if (dm) { dm->has_offset = true; dm->offset = o; } }
                }
            } else if (t == DimensionType::Range) {
                RangeDimension rd = dim.asRangeDimension();
                bool alias = rd.alias();
                arg_class = alias ? "alias" : "range";
                if (attr == 0) {
                    arg_class += ",label";
                    if (variant == 0) { rd.label(nix::none); if (dm && !alias) dm->has_label = false; }
                    else if (variant == 1) { arg_class += ",empty"; rd.label(std::string("")); if (dm && !alias) { dm->has_label = true; dm->label = ""; } }
                    else { std::string l = "L" + std::to_string(r.below(20)); rd.label(l); if (dm && !alias) { dm->has_label = true; dm->label = l; } }
                } else if (attr == 1) {
                    arg_class += ",unit";
                    if (variant == 0) { rd.unit(nix::none); if (dm && !alias) dm->has_unit = false; }
                    else if (variant == 1) { arg_class += ",non-si"; rd.unit(std::string("foo")); if (dm && !alias) { dm->has_unit = true; dm->unit = "foo"; } }
                    else { std::string u = pick_unit(r); rd.unit(u); if (dm && !alias) { dm->has_unit = true; dm->unit = u; } }
                } else {
                    arg_class += ",ticks";
                    bool sorted;
                    std::vector<double> tk = gen_ticks(r, variant, sorted);
                    if (alias) { for (auto &v : tk) v = (double) (long) (v < 0 ? -v : v) + 0.0; std::sort(tk.begin(), tk.end()); if (variant == 1 && tk.size() > 1) { std::swap(tk[0], tk[tk.size() - 1]); sorted = std::is_sorted(tk.begin(), tk.end()); } }
                    if (variant == 1 && !sorted) arg_class += ",unsorted-ticks"; else if (variant == 2) arg_class += ",empty-ticks";
                    rd.ticks(tk);
                    // whichever entry point: ticks that are not ascending must not be accepted (for an alias the stored-state check cannot
                    // tell, because the array's own data may legitimately be unsorted)
                    if (!std::is_sorted(tk.begin(), tk.end())) { fail("C13.sorted-positive", std::string("RangeDimension::ticks() accepted ticks that are not in ascending order") + (alias ? " (alias range dimension)" : "")); return 0; }
                    if (alias && have_model) {
                        // writing ticks through the alias writes the array itself
                        ArrModel &m = arr[id];
                        m.extent.assign(1, tk.size());
                        m.raw.assign(tk.size() * dtype_size(m.dtype), '\0');
                        for (size_t k = 0; k < tk.size(); k++) put_small_d(m.raw, k, m.dtype, tk[k]);
                        cnt.inc("dims.alias_ticks_write");
                    } else if (dm) dm->ticks = tk;
                }
            } else if (t == DimensionType::Set) {
                SetDimension s = dim.asSetDimension();
                arg_class = "set";
                if (attr == 0) {
                    arg_class += ",label";
                    if (variant == 0) { s.label(nix::none); if (dm) dm->has_label = false; }
                    else if (variant == 1) { arg_class += ",empty"; s.label(std::string("")); if (dm) { dm->has_label = true; dm->label = ""; } }
                    else { std::string l = "L" + std::to_string(r.below(20)); s.label(l); if (dm) { dm->has_label = true; dm->label = l; } }
                } else {
                    arg_class += ",labels";
                    if (variant == 0) { s.labels(nix::none); if (dm) dm->labels.clear(); }
                    else { std::vector<std::string> l; int k = r.range(0, 5); for (int j = 0; j < k; j++) l.push_back("x" + std::to_string(r.below(9))); s.labels(l); if (dm) dm->labels = l; }
                }
            } else return 2;
        } catch (const std::exception &) { return 1; }
        cnt.inc("dims.set");
        return 0;
    }
    default: return 2;
    }
}

} // namespace sim
