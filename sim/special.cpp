// Lane-specific scripts: open modes and header damage (C09), format-version gate (C10),
// real processes creating ids under a seeded scheduler (C12), real SIGKILL cross-check (C11).
#include "engine.hpp"
#include <hdf5.h>
#include <climits>
#include <cstring>
#include <csignal>
#include <sstream>
#include <thread>
#include <exception>
#include <unistd.h>
#include <sys/wait.h>

using namespace nix;

#ifdef NIXSIM_COV
extern "C" void __gcov_dump(void);
#endif
namespace sim {
extern int g_trace;

bool lane_is_special(const std::string &lane) { return lane == "ids" || lane == "xkill"; }

// ------------------------------------------------------------------------------------------------
// raw HDF5 helpers (stored-header damage happens "between sessions", outside nix)

static bool h5_set_version(const std::string &path, int x, int y, int z) {
    hid_t f = H5Fopen(path.c_str(), H5F_ACC_RDWR, H5P_DEFAULT);
    if (f < 0) return false;
    bool ok = false;
    hid_t a = H5Aopen_by_name(f, "/", "version", H5P_DEFAULT, H5P_DEFAULT);
    if (a >= 0) { int v[3] = {x, y, z}; ok = H5Awrite(a, H5T_NATIVE_INT, v) >= 0; H5Aclose(a); }
    H5Fclose(f);
    return ok;
}
static bool h5_del_attr(const std::string &path, const char *name) {
    hid_t f = H5Fopen(path.c_str(), H5F_ACC_RDWR, H5P_DEFAULT);
    if (f < 0) return false;
    bool ok = H5Adelete_by_name(f, "/", name, H5P_DEFAULT) >= 0;
    H5Fclose(f);
    return ok;
}
static bool h5_set_format(const std::string &path, const char *value) {
    hid_t f = H5Fopen(path.c_str(), H5F_ACC_RDWR, H5P_DEFAULT);
    if (f < 0) return false;
    H5Adelete_by_name(f, "/", "format", H5P_DEFAULT);
    hid_t t = H5Tcopy(H5T_C_S1); H5Tset_size(t, H5T_VARIABLE); H5Tset_cset(t, H5T_CSET_UTF8);
    hid_t s = H5Screate(H5S_SCALAR);
    hid_t g = H5Gopen2(f, "/", H5P_DEFAULT);
    hid_t a = H5Acreate2(g, "format", t, s, H5P_DEFAULT, H5P_DEFAULT);
    bool ok = false;
    if (a >= 0) { ok = H5Awrite(a, t, &value) >= 0; H5Aclose(a); }
    H5Gclose(g); H5Sclose(s); H5Tclose(t); H5Fclose(f);
    return ok;
}
static bool h5_plain_file(const std::string &path) {
    hid_t f = H5Fcreate(path.c_str(), H5F_ACC_TRUNC, H5P_DEFAULT, H5P_DEFAULT);
    if (f < 0) return false;
    hid_t g = H5Gcreate2(f, "/data", H5P_DEFAULT, H5P_DEFAULT, H5P_DEFAULT);
    if (g >= 0) H5Gclose(g);
    g = H5Gcreate2(f, "/metadata", H5P_DEFAULT, H5P_DEFAULT, H5P_DEFAULT);
    if (g >= 0) H5Gclose(g);
    H5Fclose(f);
    return true;
}

static bool try_open(const std::string &path, FileMode m, OpenFlags fl, std::string *err = nullptr, uint64_t *nb = nullptr, uint64_t *ns = nullptr) {
    try {
        File g = File::open(path, m, "hdf5", Compression::Auto, fl);
        if (nb) *nb = g.blockCount();
        if (ns) *ns = g.sectionCount();
        std::string id = g.id();
        g.close();
        return true;
    } catch (const std::exception &e) {
        if (err) *err = e.what();
        return false;
    }
}

// ------------------------------------------------------------------------------------------------
int exec_special_op(World &w, const Op &op) {
    const int *a = op.a;
    Rng r(op.sub);
    switch (op.kind) {
    case OP_mode_probe: {
        if (!w.is_open) return 2;
        // work on copies; the main file is closed for the duration and reopened afterwards
        int was_mode = w.mode;
        Node before = w.last;
        w.close_file(false, 0);
        if (w.failed()) return 0;
        std::string bytes0; disk_read_all(w.path, bytes0);
        std::string cp = w.dir + "/probe" + std::to_string(++w.file_gen) + ".nix";
        int scen = ((unsigned) a[0]) % 15;
        static const char *names[] = {"ro-absent", "rw-absent", "overwrite-absent", "overwrite-existing", "format-missing", "format-wrong", "version-missing", "id-missing", "plain-hdf5", "text-file", "empty-file", "rw-existing", "ro-session-then-rw", "ro-session-then-overwrite", "rw-session-then-ro"};
        w.arg_class = names[scen];
        w.cnt.inc(std::string("header.") + names[scen]);
        std::string err;
        uint64_t nb = 99, ns = 99;
        disk_remove(cp);
        if (scen == 0) {
            if (try_open(w.shaped(cp), FileMode::ReadOnly, OpenFlags::None)) w.fail("C09.refuse", "ReadOnly open of a non-existent path returned a usable File");
            else if (disk_exists(cp)) w.fail("C09.refuse", "ReadOnly open of a non-existent path created the file");
        } else if (scen == 1 || scen == 2) {
            FileMode m = scen == 1 ? FileMode::ReadWrite : FileMode::Overwrite;
            if (!try_open(w.shaped(cp), m, OpenFlags::None, &err, &nb, &ns)) w.fail(scen == 1 ? "C09.rw-preserves" : "C09.overwrite-empties", "opening a non-existent path failed: " + err);
            else if (nb || ns) w.fail("C09.overwrite-empties", "a newly created file is not empty");
            else if (!try_open(w.shaped(cp), FileMode::ReadOnly, OpenFlags::None, &err)) w.fail("C09.overwrite-empties", "a newly created file cannot be reopened ReadOnly: " + err);
        } else if (scen == 3) {
            disk_copy(w.path, cp);
            if (!try_open(w.shaped(cp), FileMode::Overwrite, OpenFlags::None, &err, &nb, &ns)) w.fail("C09.overwrite-empties", "Overwrite of an existing file failed: " + err);
            else if (nb || ns) w.fail("C09.overwrite-empties", "Overwrite left " + std::to_string(nb) + " blocks / " + std::to_string(ns) + " sections");
            else if (!try_open(w.shaped(cp), FileMode::ReadWrite, OpenFlags::None, &err, &nb, &ns) || nb || ns) w.fail("C09.overwrite-empties", "file produced by Overwrite is not a valid empty file on reopen: " + err);
        } else if (scen >= 12) {
            // a sequence of sessions on one path in one process: what an earlier session did (rejected mutators of a ReadOnly session
            // included) must not influence what the next open mode delivers
            disk_copy(w.path, cp);
            std::vector<int> kinds;
            for (int k = 0; k < OP_COUNT; k++) { if (!op_modifies(k)) continue; const char *nm = op_name(k); if (!strncmp(nm, "abuse_", 6) || k == OP_use_stale || k == OP_drop || k == OP_del_misdirected || k == OP_replace_member || k == OP_mk_crowd) continue; kinds.push_back(k); }
            auto s_arr = w.arr; auto s_dims = w.dims; auto s_prop = w.prop; auto s_frame = w.frame;
            Violation v_saved = w.viol; bool own_saved = w.viol_own;
            std::string main_path = w.path; int saved_cur = w.cur;
            bool first_ok = true; std::string ferr;
            Node after_first;
            try {
                w.f = File::open(cp, scen == 14 ? FileMode::ReadWrite : FileMode::ReadOnly); w.path = cp; w.mode = scen == 14 ? 0 : 1; w.is_open = true;
                int n = 2 + (int) r.below(8);
                for (int i = 0; i < n; i++) {
                    Op m; m.kind = kinds[r.below(kinds.size())];
                    for (int &x : m.a) x = (int) r.below(1000);
                    m.a[5] = 2 + (int) r.below(1000); m.sub = r.next() >> 1; m.s = std::string("ms") + std::to_string(r.below(4));
                    w.del_victim.clear(); w.del_handles.clear();
                    int mrc = -1;
                    try { mrc = w.exec(m); } catch (const std::exception &) {}
                    if (g_trace > 0) printf("    session-sequence step %d: %s -> %d [%s]\n", i, op_to_line(m).c_str(), mrc, w.arg_class.c_str());
                    w.del_handles.clear(); w.del_victim.clear();
                }
                w.live.clear();
                ObsOpts o; after_first = observe(w.f, o, nullptr, &w.getters);
                w.f.close();
            } catch (const std::exception &e) { first_ok = false; ferr = e.what(); }
            w.f = nix::none; w.is_open = false; w.path = main_path; w.mode = was_mode; w.cur = saved_cur; w.live.clear();
            w.arr = s_arr; w.dims = s_dims; w.prop = s_prop; w.frame = s_frame;
            w.viol = v_saved; w.viol_own = own_saved;
            w.arg_class = names[scen];
            if (!first_ok) w.fail("C09.rw-preserves", std::string("opening an intact copy failed: ") + ferr);
            else if (scen == 12 || scen == 14) {
                if (scen == 12 && !node_equal(before, after_first, err)) w.fail("C09.ro-mutator-throws", "a ReadOnly session changed what the file shows at " + err);
                else try {
                    File g = File::open(cp, scen == 12 ? FileMode::ReadWrite : FileMode::ReadOnly);
                    ObsOpts o; Node d = observe(g, o, nullptr, &w.getters);
                    g.close();
                    std::string where;
                    if (!node_equal(after_first, d, where)) w.fail("C09.rw-preserves", std::string(scen == 12 ? "ReadWrite open after a ReadOnly session" : "ReadOnly open after a ReadWrite session") + " on the same path does not show the prior content at " + where);
                } catch (const std::exception &e) { w.fail("C09.rw-preserves", std::string(scen == 12 ? "ReadWrite open after a ReadOnly session" : "ReadOnly open after a ReadWrite session") + " on the same path failed: " + e.what()); }
            } else {
                if (!try_open(w.shaped(cp), FileMode::Overwrite, OpenFlags::None, &err, &nb, &ns)) w.fail("C09.overwrite-empties", "Overwrite after a ReadOnly session on the same path failed: " + err);
                else if (nb || ns) w.fail("C09.overwrite-empties", "Overwrite after a ReadOnly session left " + std::to_string(nb) + " blocks / " + std::to_string(ns) + " sections");
                else if (!try_open(w.shaped(cp), FileMode::ReadOnly, OpenFlags::None, &err, &nb, &ns) || nb || ns) w.fail("C09.overwrite-empties", "file produced by Overwrite after a ReadOnly session is not a valid empty file on reopen: " + err);
            }
        } else if (scen == 11) {
            disk_copy(w.path, cp);
            try {
                File g = File::open(cp, FileMode::ReadWrite);
                ObsOpts o; Node d = observe(g, o, nullptr, &w.getters);
                g.close();
                std::string where;
                if (!node_equal(before, d, where)) w.fail("C09.rw-preserves", "ReadWrite open of an existing file does not show the prior content at " + where);
            } catch (const std::exception &e) { w.fail("C09.rw-preserves", std::string("ReadWrite open of an existing file failed: ") + e.what()); }
        } else {
            bool made = false;
            if (scen >= 4 && scen <= 7) {
                disk_copy(w.path, cp);
                made = scen == 4 ? h5_del_attr(cp, "format") : scen == 5 ? h5_set_format(cp, "xin") : scen == 6 ? h5_del_attr(cp, "version") : h5_del_attr(cp, "id");
            } else if (scen == 8) made = h5_plain_file(cp);
            else if (scen == 9) made = disk_write_all(cp, "this is not an HDF5 file\n" + std::string(2000, 'x'));
            else made = disk_write_all(cp, "");
            if (!made) { w.cnt.inc("header.damage_failed"); }
            else {
                std::string b0; disk_read_all(cp, b0);
                uint64_t w0 = disk_write_calls(cp);
                if (try_open(w.shaped(cp), FileMode::ReadOnly, OpenFlags::None)) w.fail("C09.refuse", "ReadOnly open of a file with a defective header returned a usable File");
                else {
                    std::string b1; disk_read_all(cp, b1);
                    if (b1 != b0 || disk_write_calls(cp) != w0) w.fail("C09.ro-no-write", "a refused ReadOnly open changed the file");
                    else if (try_open(w.shaped(cp), FileMode::ReadWrite, OpenFlags::None)) w.fail("C09.refuse", "ReadWrite open of a file with a defective header returned a usable File");
                    else if (r.chance(1, 2)) {
                        if (!try_open(w.shaped(cp), FileMode::Overwrite, OpenFlags::None, &err, &nb, &ns)) w.fail("C09.overwrite-empties", "Overwrite of a defective file failed: " + err);
                        else if (nb || ns) w.fail("C09.overwrite-empties", "Overwrite of a defective file left content");
                        else if (!try_open(w.shaped(cp), FileMode::ReadOnly, OpenFlags::None, &err)) w.fail("C09.overwrite-empties", "file produced by Overwrite cannot be reopened: " + err);
                    }
                }
            }
        }
        disk_remove(cp);
        if (w.failed()) return 0;
        std::string bytes1; disk_read_all(w.path, bytes1);
        if (bytes1 != bytes0) { w.fail("C09.ro-no-write", "harness: main file changed during a probe"); return 0; }
        if (!w.open_file(was_mode, false)) { w.fail("C02.restart-equal", "reopening after a probe failed"); return 0; }
        return 0;
    }
    case OP_ro_catalogue: {
        if (!w.is_open) return 2;
        Node before = w.last;
        w.close_file(true, op.sub);          // the session before the ReadOnly one ends with entity handles alive
        if (w.failed()) return 0;
        if (!w.open_file(1, false)) { w.fail("C09.rw-preserves", "ReadOnly open of a closed file failed"); return 0; }
        Node d0 = w.obs();
        if (w.failed()) return 0;
        std::string where;
        if (!node_equal(before, d0, where)) { w.fail("C02.restart-equal", "ReadOnly reopen differs at " + where); return 0; }
        w.last = d0;
        int n = 4 + (int) (((unsigned) a[0]) % 12);
        std::vector<int> kinds;
        for (int k = 0; k < OP_COUNT; k++) {
            if (!op_modifies(k)) continue;
            const char *nm = op_name(k);
            // (the two composite operations re-base the observation in mid-operation; the calls they are made of are in the catalogue one by one)
            if (!strncmp(nm, "abuse_", 6) || k == OP_use_stale || k == OP_drop || k == OP_del_misdirected || k == OP_replace_member || k == OP_mk_crowd) continue;
            kinds.push_back(k);
        }
        int saved_cur = w.cur;
        for (int i = 0; i < n && !w.failed(); i++) {
            Op m; m.kind = kinds[r.below(kinds.size())];
            for (int &x : m.a) x = (int) r.below(1000);
            m.a[5] = 2 + (int) r.below(1000);
            m.sub = r.next() >> 1;
            m.s = std::string("ro") + std::to_string(r.below(4));
            // --- twin: the same call on a ReadWrite copy tells whether it would change anything
            std::string twin = w.dir + "/twin" + std::to_string(++w.file_gen) + ".nix";
            disk_copy(w.path, twin);
            auto s_arr = w.arr; auto s_dims = w.dims; auto s_prop = w.prop; auto s_frame = w.frame;
            File ro = w.f; std::string ro_path = w.path; std::string ac;
            Violation v_saved = w.viol; bool own_saved = w.viol_own;
            bool twin_changed = false; int rc_tw = 2;
            try {
                w.f = File::open(twin, FileMode::ReadWrite); w.path = twin; w.mode = 0;
                ObsOpts o; Node t0 = observe(w.f, o, nullptr, &w.getters);
                w.del_victim.clear(); w.del_handles.clear();
                try { rc_tw = w.exec(m); } catch (const std::exception &) { rc_tw = 1; }
                w.del_handles.clear();
                Node t1 = observe(w.f, o, nullptr, &w.getters);
                std::string wh; twin_changed = !node_equal(t0, t1, wh);
                w.f.close();
            } catch (const std::exception &) { rc_tw = 2; }
            ac = w.arg_class;
            w.f = ro; w.path = ro_path; w.mode = 1;
            w.arr = s_arr; w.dims = s_dims; w.prop = s_prop; w.frame = s_frame;
            disk_remove(twin);
            w.viol = v_saved; w.viol_own = own_saved;   // model oracles that fired on the twin are not this op's business
            // --- the real thing on the ReadOnly file
            int rc;
            w.del_victim.clear(); w.del_handles.clear();
            try { rc = w.exec(m); } catch (const std::exception &) { rc = 1; }
            w.del_handles.clear(); w.del_victim.clear();
            w.arr = s_arr; w.dims = s_dims; w.prop = s_prop; w.frame = s_frame;
            w.viol = v_saved; w.viol_own = own_saved;
            w.arg_class = std::string(op_name(m.kind)) + "," + ac;
            w.cnt.inc(std::string("ro.mutator.") + op_name(m.kind) + (rc == 1 ? ".threw" : rc == 0 ? ".returned" : ".skipped"));
            if (twin_changed) w.cnt.inc("ro.mutators_effective_in_rw");
            Node d1 = w.obs();
            if (w.failed()) return 0;
            if (!node_equal(w.last, d1, where)) { w.fail("C09.ro-mutator-throws", std::string(op_name(m.kind)) + " changed the observable state of a ReadOnly file at " + where); break; }
            if (twin_changed && rc_tw == 0 && rc != 1) {
                w.fail("C09.ro-mutator-throws", std::string(op_name(m.kind)) + " (" + ac + ") modifies the file in ReadWrite mode but returned normally instead of throwing on the ReadOnly file");
                break;
            }
        }
        w.cur = saved_cur;
        if (w.failed()) return 0;
        w.cnt.inc("ro.catalogue_sessions");
        // end of the read-only session: bytes, write-class syscalls and open flags are checked in close_file
        w.close_file(false, 0);
        if (w.failed()) return 0;
        if (!w.open_file(0, false)) { w.fail("C09.rw-preserves", "ReadWrite reopen after a ReadOnly session failed"); return 0; }
        Node d2 = w.obs();
        if (w.failed()) return 0;
        if (!node_equal(before, d2, where)) { w.fail("C09.rw-preserves", "content after a ReadOnly session differs at " + where); return 0; }
        w.last = d2;
        return 0;
    }
    case OP_version_cube: {
        if (!w.is_open) return 2;
        int was_mode = w.mode;
        std::vector<int> lib = w.f.version();
        w.close_file(false, 0);
        if (w.failed()) return 0;
        std::string cp = w.dir + "/ver" + std::to_string(++w.file_gen) + ".nix";
        disk_copy(w.path, cp);
        std::string cp_name = w.shaped(cp);      // the program may name the file through a link, relatively, ...
        std::vector<int> xs, ys, zs;
        auto axis = [](int c) { std::vector<int> v; for (int d = -2; d <= 2; d++) if (c + d >= 0) v.push_back(c + d); v.push_back(INT_MAX); if (c + 2 < 9) v.push_back(9); return v; };
        xs = axis(lib[0]); ys = axis(lib[1]); zs = axis(lib[2]);
        // the core cube (every file: all of it) ...
        std::vector<std::vector<int> > triples;
        for (int x : xs) for (int y : ys) for (int z : zs) triples.push_back({x, y, z});
        size_t core = triples.size();
        // ... and the cross: one component taken from values where packed or truncated encodings of a version carry or wrap (next to
        // powers of ten and of two, negative, the library's component shifted by such a radix), the other two from the core axes.
        // The cross has a few thousand triples; every file takes the residue class of its seed modulo 8, so a batch covers all of it.
        std::vector<std::vector<int> > cross;
        {
            static const int radix[] = {10, 100, 256, 1000, 65536, 1000000};
            const std::vector<int> *ax[3] = {&xs, &ys, &zs};
            for (int pos = 0; pos < 3; pos++) {
                std::set<int> ext;
                for (int rdx : radix) { ext.insert(rdx - 1); ext.insert(rdx); ext.insert(rdx + 1); ext.insert(lib[(size_t) pos] + rdx); ext.insert(lib[(size_t) pos] - rdx); ext.insert(-rdx); }
                ext.insert(-1); ext.insert(INT_MIN); ext.insert(INT_MAX - 1);
                for (int e : ext) {
                    bool in_core = false; for (int c : *ax[pos]) if (c == e) in_core = true;
                    if (in_core) continue;
                    const std::vector<int> &A = *ax[(pos + 1) % 3], &B = *ax[(pos + 2) % 3];
                    for (int p1 : A) for (int p2 : B) { std::vector<int> t(3); t[(size_t) pos] = e; t[(size_t) ((pos + 1) % 3)] = p1; t[(size_t) ((pos + 2) % 3)] = p2; cross.push_back(t); }
                }
            }
        }
        unsigned cls = (unsigned) (op.sub % 8);
        for (size_t i = 0; i < cross.size(); i++) if (i % 8 == cls) triples.push_back(cross[i]);
        w.cnt.inc("version.cross_triples_total", cross.size());
        w.cnt.inc("version.core_triples", core);
        w.cnt.inc("version.cross_class_files." + std::to_string(cls));
        w.cnt.inc("version.cross_class_triples." + std::to_string(cls), triples.size() - core);
        uint64_t opens = 0, cases = 0;
        for (size_t ti = 0; ti < triples.size(); ti++) {
            int x = triples[ti][0], y = triples[ti][1], z = triples[ti][2];
            if (w.failed()) break;
            if (!h5_set_version(cp, x, y, z)) { w.fail("C10.gate", "harness: could not rewrite the stored version"); break; }
            cases++;
            if (ti >= core) w.cnt.inc("version.cross_triples");
            bool can_read = x == lib[0] && y <= lib[1];
            bool can_write = x == lib[0] && y == lib[1] && z == lib[2];
            // the four attempts on one stored version are made in a seeded order: what an earlier attempt leaves behind in the process
            // (a refused open must leave nothing) then meets every kind of next attempt
            int order4[4] = {0, 1, 2, 3};
            for (int i = 3; i > 0; i--) { int j = (int) r.below((uint64_t) i + 1); std::swap(order4[i], order4[j]); }
            for (int oi = 0; oi < 4 && !w.failed(); oi++) {
                int mode = order4[oi] >> 1, force = order4[oi] & 1;
                bool expect = force ? true : (mode == 0 ? can_read : can_write);
                std::string err;
                bool got = try_open(cp_name, mode == 0 ? FileMode::ReadOnly : FileMode::ReadWrite, force ? OpenFlags::Force : OpenFlags::None, &err);
                opens++;
                if (got != expect) {
                    w.arg_class = std::string(mode == 0 ? "ReadOnly" : "ReadWrite") + (force ? ",Force" : "") + (expect ? ",refused-but-must-open" : ",opened-but-must-refuse");
                    w.fail("C10.gate", "file version (" + std::to_string(x) + "," + std::to_string(y) + "," + std::to_string(z) + ") library (" + std::to_string(lib[0]) + "," + std::to_string(lib[1]) + "," + std::to_string(lib[2]) + ") mode " + (mode == 0 ? "ReadOnly" : "ReadWrite") + (force ? " Force" : "") + ": " + (got ? "opened" : "refused (" + err + ")") + ", expected " + (expect ? "open" : "refusal"));
                }
            }
        }
        w.cnt.inc("version.triples", cases); w.cnt.inc("version.opens", opens);
        // ordering laws over all pairs of the cube (pure; enumerated alongside)
        if (!w.failed()) {
            const std::vector<std::vector<int> > &all = triples;
            uint64_t pairs = 0;
            for (auto &p : all) for (auto &q : all) {
                FormatVersion A(p), B(q);
                int cmp = p < q ? -1 : (q < p ? 1 : 0);   // std::vector compares lexicographically
                pairs++;
                bool ok = (A < B) == (cmp < 0) && (A > B) == (cmp > 0) && (A <= B) == (cmp <= 0) && (A >= B) == (cmp >= 0) && (A == B) == (cmp == 0) && (A != B) == (cmp != 0);
                if (!ok) { w.arg_class = "order-laws"; w.fail("C10.order-laws", "comparison operators disagree with lexicographic order for (" + std::to_string(p[0]) + "," + std::to_string(p[1]) + "," + std::to_string(p[2]) + ") vs (" + std::to_string(q[0]) + "," + std::to_string(q[1]) + "," + std::to_string(q[2]) + ")"); break; }
            }
            w.cnt.inc("version.order_pairs", pairs);
        }
        disk_remove(cp);
        if (w.failed()) return 0;
        if (!w.open_file(was_mode, false)) { w.fail("C02.restart-equal", "reopening after the version cube failed"); return 0; }
        return 0;
    }
    default: return 2;
    }
}

// ------------------------------------------------------------------------------------------------
// real processes (ids lane, xkill lane)

struct Child { pid_t pid; int to, from; bool alive; std::string file; bool shared; };

static bool write_all(int fd, const std::string &s) {
    size_t off = 0;
    while (off < s.size()) { ssize_t n = write(fd, s.data() + off, s.size() - off); if (n < 0 && errno == EINTR) continue; if (n <= 0) return false; off += (size_t) n; }
    return true;
}
static bool read_line(int fd, std::string &line) {
    line.clear();
    char c;
    for (;;) { ssize_t n = read(fd, &c, 1); if (n < 0 && errno == EINTR) continue; if (n <= 0) return false; if (c == '\n') return true; line += c; }
}

static void list_ids(const File &f, const std::string &full, std::ostringstream &o) {
    std::string tag = full.substr(full.rfind('/') + 1);   // the directory name contains a pid and must not enter the event hash
    ObsOpts opt; opt.read_data = false;
    uint64_t g = 0;
    Node d = observe(f, opt, nullptr, &g);
    std::vector<std::pair<std::string, std::string> > recs;
    collect_records(d, "", recs);
    o << " " << tag << "|/|" << d.field("id");
    {   // everything a user can read (values, data, links), in one token: "<file>|#|<hash>"
        ObsOpts full; uint64_t g2 = 0;
        Node fd = observe(f, full, nullptr, &g2);
        o << " " << tag << "|#|" << hex64(node_hash(fd));
    }
    for (auto &p : recs) {
        std::string path = p.first;
        for (auto &ch : path) if (ch == ' ' || ch == '\n') ch = '_';
        o << " " << tag << "|" << path << "|" << p.second;
    }
}

// child main loop: commands "<clock> <action> <arg> <sub>"; replies one line
static void child_loop(int from_parent, int to_parent, const std::string &dir, int index, uint64_t entropy) {
    entropy_seed(entropy);
    pid_set(5000 + (int) ((entropy >> 7) % 2));      // simulated processes often share a pid (other machine, pid reuse)
    File f; std::string cur; int burst = 0;
    std::string line;
    while (read_line(from_parent, line)) {
        std::istringstream in(line);
        long long clk; int action, arg; uint64_t sub;
        in >> clk >> action >> arg >> sub;
        clock_set(clk);
        std::ostringstream out;
        try {
            switch (action) {
            case 0: { if (f) { f.close(); } cur = dir + "/p" + std::to_string(index) + "_" + std::to_string(arg % 2) + ".nix"; f = File::open(cur, FileMode::Overwrite); out << "ok"; list_ids(f, cur, out); break; }
            case 1: { if (f) { f.close(); } cur = dir + "/shared.nix"; f = File::open(cur, FileMode::ReadWrite); out << "ok"; list_ids(f, cur, out); break; }
            case 2: { if (f) { f.close(); f = nix::none; } out << "ok"; break; }
            case 9: { // a new session of this process on the file it used last: ReadWrite or ReadOnly, with or without the Force flag
                if (cur.empty()) { out << "skip"; break; }
                if (f) { f.close(); f = nix::none; }
                f = File::open(cur, (sub & 1) ? FileMode::ReadOnly : FileMode::ReadWrite, "hdf5", Compression::Auto, (sub & 2) ? OpenFlags::Force : OpenFlags::None);
                out << "ok"; list_ids(f, cur, out); break; }
            case 3: {
                if (!f) { out << "skip"; break; }
                Rng r(sub);
                bool from_thread = ((sub >> 40) % 4) == 0;      // this burst is issued from a second caller thread (joined before going on)
                std::exception_ptr thr_err;
                auto burst_fn = [&]() { try {
                std::string sfx = "_p" + std::to_string(index) + "_" + std::to_string(burst++);
                Block b = f.blockCount() && r.chance(1, 2) ? f.getBlock(r.below(f.blockCount())) : f.createBlock("b" + sfx, "t");
                int n = r.range(1, 5);
                for (int i = 0; i < n; i++) {
                    std::string nm = "e" + sfx + "_" + std::to_string(i);
                    switch (r.range(0, 8)) {
                        case 0: { DataArray a = b.createDataArray(nm, "t", DataType::Double, NDSize({2}));
                                  if (r.chance(2, 3)) { std::vector<double> v((size_t) r.range(1, 40)); for (auto &x : v) x = (double) r.range(-1000, 1000); a.setData(v); a.label("l" + sfx); }
                                  if (r.chance(1, 3)) a.appendRangeDimension({1.0, 2.0, 3.5});
                                  break; }
                        case 1: { Tag t = b.createTag(nm, "t", {1.0}); if (b.dataArrayCount()) t.createFeature(b.getDataArray((ndsize_t) 0), LinkType::Tagged); break; }
                        case 2: b.createGroup(nm, "t"); break;
                        case 3: b.createSource(nm, "t").createSource("child", "t"); break;
                        case 4: { Section s = f.createSection(nm, "t"); s.createProperty("p", Variant((double) r.range(0, 99))); s.createSection("sub", "t");
                                  if (r.chance(1, 2)) { std::vector<Variant> vs; int k = r.range(1, 12); for (int j = 0; j < k; j++) vs.push_back(Variant("v" + std::to_string(r.range(0, 999)))); s.createProperty("sv", vs); }
                                  if (r.chance(1, 2)) b.metadata(s);
                                  break; }
                        case 5: { if (b.dataArrayCount()) b.createMultiTag(nm, "t", b.getDataArray((ndsize_t) 0)); break; }
                        case 6: { std::vector<Column> cols(1); cols[0].name = "c"; cols[0].unit = ""; cols[0].dtype = DataType::Double; DataFrame df = b.createDataFrame(nm, "t", cols);
                                  if (r.chance(1, 2)) { df.rows(3); df.writeRow(1, {Variant((double) r.range(0, 99))}); }
                                  break; }
                        case 7: { if (f.sectionCount()) f.getSection((ndsize_t) 0).createProperty("q" + sfx + std::to_string(i), DataType::Int32); break; }
                        default: f.createBlock("bb" + nm, "t"); break;
                    }
                }
                } catch (...) { thr_err = std::current_exception(); } };
                if (from_thread) { std::thread t(burst_fn); t.join(); } else burst_fn();
                if (thr_err) std::rethrow_exception(thr_err);
                out << "ok"; list_ids(f, cur, out);
                break;
            }
            case 4: { if (!f) { out << "skip"; break; } out << "ok"; list_ids(f, cur, out); break; }
            case 5: { if (!f) { out << "skip"; break; } f.forceId(); out << "ok"; list_ids(f, cur, out); break; }
            case 6: { if (!f) { out << "skip"; break; } bool ok = f.flush(); out << (ok ? "flushed" : "flushfail"); list_ids(f, cur, out); break; }
            case 7: { raise(SIGKILL); break; }
            case 8: { // reader: open the named file read-only and list it
                cur = dir + (arg == 99 ? "/shared.nix" : "/p" + std::to_string(arg / 2) + "_" + std::to_string(arg % 2) + ".nix");
                File g = File::open(cur, (sub % 3) == 1 ? FileMode::ReadWrite : FileMode::ReadOnly); out << "ok"; list_ids(g, cur, out); g.close(); break; }
            default: out << "skip";
            }
        } catch (const std::exception &e) {
            std::string m = e.what(); for (auto &c : m) if (c == ' ' || c == '\n') c = '_';
            out.str(""); out << "threw " << m;
        }
        out << "\n";
        if (!write_all(to_parent, out.str())) break;
    }
#ifdef NIXSIM_COV
    __gcov_dump();
#endif
    _exit(0);
}

int run_special(World &w, const Plan &p, const std::string &dir) {
    w.plan = p; w.dir = dir;
    const Swarm &s = p.swarm;
    clock_enable(true); clock_set(s.t0);
    h5knob_set(s.cache_mode, s.sieve_mode);
    h5knob_mdc(s.mdc_mode);
    { unsigned t = (unsigned) ((s.entropy >> 32) % 8); h5knob_tbuf(t == 0 ? 0 : (t < 5 ? 1 : 2)); }
    std::vector<Child> kids;
    uint64_t ent = s.entropy;
    auto spawn = [&](int index) {
        int a[2], b[2];
        if (pipe(a) || pipe(b)) return false;
        uint64_t e = splitmix64(ent);     // distinct entropy per simulated process
        pid_t pid = fork();
        if (pid == 0) {
            close(a[1]); close(b[0]);
            for (auto &k : kids) { close(k.to); close(k.from); }
            child_loop(a[0], b[1], dir, index, e);
            _exit(0);
        }
        close(a[0]); close(b[1]);
        Child c; c.pid = pid; c.to = a[1]; c.from = b[0]; c.alive = true; c.shared = false;
        if ((size_t) index < kids.size()) kids[(size_t) index] = c; else kids.push_back(c);
        w.cnt.inc("xproc.processes");
        return true;
    };
    int P = 2 + (int) (s.entropy % 3);
    for (int i = 0; i < P; i++) spawn(i);
    std::map<std::string, std::string> first;           // file|path -> id
    std::map<std::string, std::string> owner;           // id -> file|path
    std::map<std::string, std::vector<std::string> > listing;   // file -> last listing (for the kill cross-check)
    std::vector<int64_t> clk((size_t) P, s.t0);
    int shared_holder = -1;
    Hash sched;
    auto absorb = [&](const std::string &reply, const std::string &who) {
        std::istringstream in(reply);
        std::string st; in >> st;
        std::string tok; std::string file; std::vector<std::string> ids;
        std::set<std::string> present;
        while (in >> tok) {
            size_t p1 = tok.find('|'), p2 = tok.rfind('|');
            if (p1 == std::string::npos || p2 == p1) continue;
            file = tok.substr(0, p1);
            std::string key = tok.substr(0, p2), id = tok.substr(p2 + 1);
            ids.push_back(tok);
            if (key.size() > 2 && key.compare(key.size() - 2, 2, "|#") == 0) continue;     // content hash, not an id
            present.insert(key);
            if (!wellformed_uuid(id)) { w.fail("C12.wellformed", "id '" + id + "' of " + key + " is not a well-formed UUID"); return; }
            auto it = first.find(key);
            if (it != first.end()) {
                if (it->second != id && !(w.arg_class == "forceId" && key.size() > 2 && key.compare(key.size() - 2, 2, "|/") == 0)) { w.fail("C12.stable", "entity " + key + " changed id from " + it->second + " to " + id + " (seen by " + who + ")"); return; }
                if (it->second != id) { owner.erase(it->second); it->second = id; if (owner.count(id)) { w.fail("C12.unique", "forceId produced an id already in use"); return; } owner[id] = key; w.cnt.inc("ids.new"); }
            } else {
                auto o = owner.find(id);
                if (o != owner.end()) { w.fail("C12.unique", "id " + id + " was given to " + key + " (" + who + ") but already belongs to " + o->second); return; }
                first[key] = id; owner[id] = key;
                w.cnt.inc("ids.new");
            }
        }
        if (!file.empty()) {
            // entities that disappeared from this file are forgotten (Overwrite re-creates files)
            for (auto it = first.begin(); it != first.end();) {
                if (it->first.compare(0, file.size() + 1, file + "|") == 0 && !present.count(it->first)) { it = first.erase(it); } else ++it;
            }
            listing[file] = ids;
        }
    };
    for (size_t i = 0; i < p.ops.size() && !w.failed(); i++) {
        const Op &op = p.ops[i];
        w.cur = (int) i;
        progress((int) i, op.kind);
        w.evh.str(op_to_line(op));
        if (op.kind != OP_xp) continue;
        int k = (int) (((unsigned) op.a[0]) % (unsigned) P);
        int action = ((unsigned) op.a[1]) % 10;
        // clocks: mostly the same second for everybody; sometimes skewed or far apart
        static const int64_t dj[] = {0, 0, 0, 0, 0, 1, 1, 3600, -1, -86400, 86400 * 365};
        int64_t d = dj[((unsigned) op.a[2]) % 11];
        clk[(size_t) k] += d;
        if (d == 0) w.cnt.inc("clock.same_second"); else if (d > 0) w.cnt.inc("clock.forward"); else w.cnt.inc("clock.backward");
        bool same_second = false;
        for (int j = 0; j < P; j++) if (j != k && clk[(size_t) j] == clk[(size_t) k]) same_second = true;
        if (same_second) w.cnt.inc("xproc.steps_in_a_second_shared_with_another_process");
        Child &c = kids[(size_t) k];
        std::string who = "process " + std::to_string(k);
        w.arg_class = action == 5 ? "forceId" : "";
        if (s.lane == "ids" && (action == 6 || action == 7 || action == 8)) action = 3;
        if (action == 9 && c.shared) action = 3;      // the shared file is handed over explicitly (action 1)
        if (action == 1) { if (shared_holder >= 0 && shared_holder != k) action = 3; else { shared_holder = k; c.shared = true; } }
        if ((action == 0 || action == 2) && c.shared) { c.shared = false; if (shared_holder == k) shared_holder = -1; }
        sched.u64((uint64_t) k); sched.u64((uint64_t) clk[(size_t) k]); sched.u64((uint64_t) action);
        if (action == 0) {
            // Overwrite makes a new file: whatever was known about the old one at that path is forgotten (its ids stay reserved)
            std::string fn = "p" + std::to_string(k) + "_" + std::to_string((op.a[3] % 100) % 2) + ".nix|";
            for (auto it = first.begin(); it != first.end();) { if (it->first.compare(0, fn.size(), fn) == 0) it = first.erase(it); else ++it; }
        }
        std::ostringstream cmd;
        cmd << clk[(size_t) k] << " " << action << " " << (op.a[3] % 100) << " " << op.sub << "\n";
        if (action == 7) {
            // real SIGKILL of a writer; allowed only right after a successful flush with nothing modified since
            continue;
        }
        if (!write_all(c.to, cmd.str())) { w.fail("C16.crash", who + " is gone"); break; }
        std::string reply;
        if (!read_line(c.from, reply)) {
            int st = 0; waitpid(c.pid, &st, 0);
            w.fail("C16.crash", who + " died executing action " + std::to_string(action) + (WIFSIGNALED(st) ? " (signal " + std::to_string(WTERMSIG(st)) + ")" : " (exit " + std::to_string(WEXITSTATUS(st)) + ")"));
            break;
        }
        w.evh.str(reply);
        w.cnt.inc("xproc.steps");
        w.cnt.inc(std::string("op.xp.") + (reply.compare(0, 5, "threw") == 0 ? "threw" : reply.compare(0, 4, "skip") == 0 ? "skipped" : "ok"));
        absorb(reply, who);
        if (w.failed()) break;
        if (s.lane == "xkill" && reply.compare(0, 7, "flushed") == 0 && (op.a[4] % 2) == 0) {
            // --- C11 cross-check with a real SIGKILL: kill the writer now, let a fresh process read the file
            std::string file = c.shared ? std::string("shared.nix") : "";
            std::vector<std::string> want;
            std::istringstream in(reply); std::string st, tok; in >> st;
            while (in >> tok) { want.push_back(tok); if (file.empty()) file = tok.substr(0, tok.find('|')); }
            kill(c.pid, SIGKILL);
            int stt = 0; waitpid(c.pid, &stt, 0);
            close(c.to); close(c.from);
            w.cnt.inc("kill.real_sigkill");
            if (c.shared) { c.shared = false; if (shared_holder == k) shared_holder = -1; }
            spawn(k);
            Child &rdr = kids[(size_t) k];
            std::ostringstream rc;
            int arg = 99;
            if (file.find("shared.nix") == std::string::npos && file.size() > 3) { int pi = atoi(file.c_str() + 1); size_t us = file.find('_'); int which = atoi(file.c_str() + us + 1); arg = pi * 2 + which; }
            rc << clk[(size_t) k] + 5 << " 8 " << arg << " " << (((unsigned) op.a[5]) % 3) << "\n";
            w.cnt.inc((((unsigned) op.a[5]) % 3) == 1 ? "kill.reader_opens_rw" : "kill.reader_opens_ro");
            write_all(rdr.to, rc.str());
            std::string rr;
            if (!read_line(rdr.from, rr)) { w.fail("C11.image-complete", "reader process died opening the file left by a killed writer"); break; }
            w.evh.str(rr);
            if (rr.compare(0, 2, "ok") != 0) { w.arg_class = "real-sigkill"; w.fail("C11.image-complete", "file left by a writer killed (SIGKILL) right after flush()==true cannot be opened by another process: " + rr.substr(0, 200)); break; }
            std::vector<std::string> got; std::istringstream in2(rr); in2 >> st; while (in2 >> tok) got.push_back(tok);
            w.cnt.inc("kill.checked");
            if (got != want) { w.arg_class = "real-sigkill"; w.fail("C11.image-complete", "file left by a writer killed (SIGKILL) right after flush()==true lists " + std::to_string(got.size()) + " entities, the writer listed " + std::to_string(want.size()) + " at flush"); break; }
        }
    }
    for (auto &c : kids) { close(c.to); close(c.from); }
    for (auto &c : kids) { int st; waitpid(c.pid, &st, 0); }
    w.state_hashes.insert(sched.h);
    w.cnt.inc("sim_seconds", 1);
    return 0;
}

} // namespace sim
