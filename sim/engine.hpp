// World, plans and operations of the nix simulator.
#ifndef NIXSIM_ENGINE_HPP
#define NIXSIM_ENGINE_HPP

#include "sim.hpp"
#include "node.hpp"
#include "observe.hpp"
#include <nix.hpp>
#include <memory>

namespace sim {

// name, owner property, modifies-the-file flag
#define NIXSIM_OPS(X) \
    X(flush, "C11", 0) X(reopen, "C02", 0) X(kill, "C11", 0) X(drop, "C16", 1) X(clock, "C12", 0) \
    X(flush_fault, "C11", 0) X(close_fault, "C11", 0) X(use_stale, "C16", 1) X(keep, "C16", 0) \
    X(create_block, "C03", 1) X(delete_block, "C04", 1) X(create_section, "C03", 1) X(delete_section, "C04", 1) \
    X(create_source, "C03", 1) X(delete_source, "C04", 1) X(create_array, "C03", 1) X(delete_array, "C04", 1) \
    X(create_frame, "C03", 1) X(delete_frame, "C04", 1) X(create_tag, "C03", 1) X(delete_tag, "C04", 1) \
    X(create_mtag, "C03", 1) X(delete_mtag, "C04", 1) X(create_group, "C03", 1) X(delete_group, "C04", 1) \
    X(set_meta, "C02", 1) X(set_def, "C02", 1) X(set_type, "C02", 1) \
    X(add_source, "C03", 1) X(rm_source, "C03", 1) X(set_sources, "C02", 1) \
    X(tag_pos, "C02", 1) X(tag_extent, "C02", 1) X(tag_units, "C02", 1) \
    X(tag_addref, "C03", 1) X(tag_rmref, "C03", 1) X(tag_setrefs, "C02", 1) \
    X(feat_create, "C03", 1) X(feat_delete, "C04", 1) X(feat_link, "C02", 1) X(feat_data, "C02", 1) \
    X(mtag_positions, "C02", 1) X(mtag_extents, "C02", 1) \
    X(group_add, "C03", 1) X(group_rm, "C03", 1) X(group_set, "C02", 1) \
    X(sec_link, "C02", 1) X(sec_repo, "C02", 1) \
    X(prop_create, "C14", 1) X(prop_delete, "C04", 1) X(prop_values, "C14", 1) X(prop_delvalues, "C14", 1) \
    X(prop_none, "C14", 1) X(prop_unit, "C14", 1) X(prop_uncert, "C14", 1) X(prop_def, "C14", 1) \
    X(arr_write, "C01", 1) X(arr_write_whole, "C01", 1) X(arr_append, "C01", 1) X(arr_extent, "C01", 1) \
    X(arr_read, "C01", 0) X(arr_read_cal, "C01", 0) X(arr_view, "C01", 1) \
    X(arr_label, "C02", 1) X(arr_unit, "C02", 1) X(arr_origin, "C01", 1) X(arr_poly, "C01", 1) \
    X(dim_append, "C13", 1) X(dim_delete_all, "C13", 1) X(dim_set, "C13", 1) X(dim_read, "C13", 0) \
    X(frame_rows, "C15", 1) X(frame_write_row, "C15", 1) X(frame_write_cell, "C15", 1) X(frame_write_col, "C15", 1) \
    X(frame_read_row, "C15", 0) X(frame_read_cell, "C15", 0) X(frame_read_col, "C15", 0) \
    X(abuse_array, "C16", 1) X(abuse_dims, "C16", 1) X(abuse_tag, "C16", 1) X(abuse_none, "C16", 1) \
    X(abuse_frame, "C16", 1) X(abuse_misc, "C16", 1) \
    X(force_id, "C12", 1) X(mk_graph, "C04", 1) X(abuse_tagging, "C16", 1) X(mk_fitted, "C04", 1) X(abuse_legacy, "C16", 1) X(second_view, "C02", 0) X(del_misdirected, "C04", 1) X(replace_member, "C03", 1) X(force_created, "C02", 1) X(mk_crowd, "C11", 1) \
    X(ro_catalogue, "C09", 0) X(mode_probe, "C09", 0) X(version_cube, "C10", 0) X(xp, "C12", 0)

enum OpKind {
#define X(n, o, m) OP_##n,
    NIXSIM_OPS(X)
#undef X
    OP_COUNT
};
const char *op_name(int k);
const char *op_owner(int k);
bool op_modifies(int k);
int op_from_name(const std::string &n);

struct Op {
    int kind;
    int a[6];
    uint64_t sub;
    std::string s;
    Op() : kind(0), sub(0) { for (int &x : a) x = 0; }
};
std::string op_to_line(const Op &op);
bool op_from_line(const std::string &line, Op &op);

// swarm configuration of a run; derived from the seed, serialised with the plan
struct Swarm {
    std::string lane;
    int nops;
    int cache_mode, sieve_mode;
    int mdc_mode;             // metadata cache knob (optional trailing field of the swarm line; absent = default cache)
    int perturb_pm;           // transparent I/O perturbation per mille
    int file_compression;     // 0 none, 1 deflate default for the file
    int dtype_mask;           // enabled element types (bit per index in the dtype table)
    int big;                  // "big array" setting
    int name_pool;            // how many distinct names are in play (small => many duplicates)
    int64_t t0;               // start time of the simulated clock
    uint64_t entropy;         // entropy seed
    std::vector<int> weights; // per op kind
    Swarm() : nops(20), cache_mode(0), sieve_mode(0), mdc_mode(0), perturb_pm(0), file_compression(0), dtype_mask(0xfff), big(0), name_pool(6), t0(1600000000), entropy(1) {}
};
std::string swarm_to_line(const Swarm &s);
bool swarm_from_line(const std::string &line, Swarm &s);

struct Plan {
    Swarm swarm;
    std::vector<Op> ops;
};
Plan generate_plan(const std::string &lane, uint64_t seed, int tier);
std::string plan_to_text(const Plan &p);
bool plan_from_text(const std::string &text, Plan &p);
bool lane_known(const std::string &lane);
const char *lane_property(const std::string &lane);
std::vector<std::string> lane_list();

struct Violation {
    bool set;
    std::string oracle;     // e.g. C02.restart-equal
    int op_index;
    std::string op;         // op kind name
    std::string arg_class;
    std::string detail;
    Violation() : set(false), op_index(-1) {}
};

// ---- reference models (rendered to the same fragments observe() produces)
struct ArrModel {
    nix::DataType dtype;
    std::vector<uint64_t> extent;
    std::string raw;                    // numeric: bytes in own dtype, row-major
    std::vector<std::string> strs;      // String arrays
    bool smallints;                     // all stored values are small integers (cross-type ops allowed)
    bool has_origin; double origin;
    std::vector<double> poly;
    size_t nelms() const { size_t n = extent.empty() ? 0 : 1; for (auto e : extent) n *= (size_t) e; return n; }
};
struct DimModel {
    int kind;                           // 0 sampled 1 range 2 set 3 frame 4 alias
    double interval; bool has_offset; double offset;
    bool has_label; std::string label; bool has_unit; std::string unit;
    std::vector<double> ticks; std::vector<std::string> labels;
    std::string frame_id; int column;   // column -1 = none
    DimModel() : kind(0), interval(1), has_offset(false), offset(0), has_label(false), has_unit(false), column(-1) {}
};
struct PropModel {
    nix::DataType dtype;
    bool specified;                     // values known (after the first assignment / creation with values)
    std::vector<std::string> values;    // variant_str form
    bool has_unit; std::string unit; bool has_unc; double unc; bool has_def; std::string def;
    PropModel() : dtype(nix::DataType::Nothing), specified(false), has_unit(false), has_unc(false), unc(0), has_def(false) {}
};
struct FrameModel {
    std::vector<nix::Column> cols;
    std::vector<std::vector<std::string> > cells;   // [row][col] variant_str
};

struct Kept {                       // a retained handle
    int kind;                       // 0 block 1 array 2 frame 3 tag 4 mtag 5 group 6 source 7 section 8 property 9 feature 10 dimension 11 view 12 file
    std::string id;                 // entity id when taken (if any)
    int session;                    // session it was taken in
    bool deleted;                   // entity known to have been deleted
    nix::Block block; nix::DataArray array; nix::DataFrame frame; nix::Tag tag; nix::MultiTag mtag;
    nix::Group group; nix::Source source; nix::Section section; nix::Property property; nix::Feature feature;
    nix::Dimension dim; std::shared_ptr<nix::DataView> view; nix::File file;
    std::vector<nix::Dimension> dims;                          // long-lived array handle: descriptor handles obtained when the array was first looked at
    std::map<std::string, std::set<std::string> > seen;        // long-lived container handle: ids of members seen through it so far, per member kind
    Kept() : kind(0), session(0), deleted(false) {}
};

struct Counters {
    std::map<std::string, uint64_t> c;
    void inc(const std::string &k, uint64_t n = 1) { c[k] += n; }
};

struct World {
    Plan plan;
    std::string lane_prop;      // property this run reports for
    std::string dir;            // simulation directory
    std::string path;           // current file path
    int file_gen;               // generation counter for snapshot names
    nix::File f;
    nix::File f2; bool f2_open;   // a second File object on the same file (ReadOnly), kept open across operations
    bool is_open;
    int mode;                   // 0 RW, 1 RO
    int session;
    int cur;                    // index of the op being executed
    Node last; bool have_last;
    std::map<std::string, std::string> last_upd;   // C08 lane: modification times at the last observation
    std::map<std::string, ArrModel> arr;
    std::map<std::string, std::vector<DimModel> > dims;
    std::map<std::string, PropModel> prop;
    std::map<std::string, FrameModel> frame;
    std::vector<Kept> kept;
    std::map<std::string, Kept> live;      // long-lived handles of the current session, keyed by kind:id (reused by later operations)
    bool prefer_live;                      // this operation addresses entities through a long-lived handle when one exists
    bool viol_own;                         // the recorded violation belongs to the lane's own property
    bool lookups_due;                      // the next observation evaluates the lookup-agreement predicates
    bool flush_valid; Node flush_doc;     // C11: guarantee pending
    std::string ro_bytes; bool ro_tracking; uint64_t ro_writes0; int ro_wopens0;
    std::set<std::string> seen_ids;       // every id ever observed in this run
    Violation viol;
    Counters cnt;
    Hash evh;                   // event hash (plan, outcomes, digests, disk events)
    uint64_t getters;
    std::string arg_class;      // set by the op being executed
    std::string misdirected_target; // id of the entity the misdirected delete call designated
    std::string expect_unchanged; // oracle to raise if the call the op made (which designates nothing the addressed container holds) changed the document
    std::string must_succeed;   // oracle to raise if the in-contract call the op is about to make on a writable file throws
    std::set<uint64_t> state_hashes, triples;
    int64_t sim_start;
    bool stop;                  // end the run after the current op
    bool twin_safe;             // this run is one of a pair (observed / unobserved execution of the same plan): kills, drops, flush faults and stale-handle use are skipped in both
    bool blind;                 // the unobserved twin: nothing is read back before the final restart
    bool next_open_force;       // the next open passes OpenFlags::Force
    int path_shape;             // how the program names its file (see World::open_path)
    bool via_symlink;           // the program names the file through a symbolic link (path shapes are part of the environment)
    std::string open_path();    // the name under which the current file is opened
    std::string shaped(const std::string &p);
    bool threaded_run;          // some operations of this run are issued from a second caller thread (started and joined per operation)
    bool hoard_next_close;      // the next close() happens with handles to every entity of the file alive (set by mk_crowd)
    bool ghosts_allowed;        // keep handles to deleted / still-live entities across operations (abuse, durable lanes)

    World() : file_gen(0), f2_open(false), is_open(false), mode(0), session(0), cur(-1), have_last(false), flush_valid(false), ro_tracking(false),
              ro_writes0(0), ro_wopens0(0), getters(0), sim_start(0), stop(false), path_shape(0), next_open_force(false), via_symlink(false), twin_safe(false), blind(false), threaded_run(false), hoard_next_close(false), ghosts_allowed(false), del_result(false) { prefer_live = false; viol_own = false; lookups_due = true; }

    // -- running
    void run(const Plan &p, const std::string &dir);
    void fail(const std::string &oracle, const std::string &detail);
    // only a violation of the lane's own property ends a run: after a foreign one (another property's oracle) the run goes on, so that
    // what the lane's own oracles have to say about the same history is still heard (an own violation replaces a foreign one)
    bool failed() const { return viol.set && viol_own; }
    bool failed_any() const { return viol.set; }
    // -- sessions (exec.cpp)
    bool open_file(int mode, bool create);
    void close_file(bool gather_handles, uint64_t sub);
    Node obs();                             // observe + embedded lookup/dims oracles
    void post_models(const Node &doc);      // compare models with doc
    void gather_handles(uint64_t sub);
    // -- addressing helpers (ops_entity.cpp)
    nix::Block blk(int slot);
    nix::DataArray arr_at(int b, int slot);
    nix::DataFrame frame_at(int b, int slot);
    nix::Tag tag_at(int b, int slot);
    nix::MultiTag mtag_at(int b, int slot);
    nix::Group group_at(int b, int slot);
    std::vector<nix::Source> all_sources(const nix::Block &b);
    nix::Source source_at(int b, int slot);
    std::vector<nix::Section> all_sections();
    nix::Section section_at(int slot);
    nix::DataArray foreign_arr(int b, int slot);
    nix::Source foreign_src(int b, int slot);
    nix::Tag foreign_tag(int b, int slot);
    nix::Property prop_at(int sec, int slot);
    std::string pick_name(Rng &r, int sel);
    std::string pick_type(int sel);
    std::string resolve_name(const std::string &s, const std::string &container_path);
    // -- op dispatch; returns 0 ok, 1 threw, 2 skipped
    int exec(const Op &op);
    int exec_session(const Op &op);
    int exec_entity(const Op &op);
    int exec_array(const Op &op);
    int exec_dims(const Op &op);
    int exec_meta(const Op &op);
    int exec_frame(const Op &op);
    int exec_abuse(const Op &op);
    int mk_graph(const Op &op);
    int mk_fitted(const Op &op);
    int del_misdirected(const Op &op);
    int del_misdirected_v(const Op &op, int v);
    int replace_member(const Op &op);
    // deletion bookkeeping (C04)
    std::string del_victim;                  // id of entity about to be deleted (set by delete ops)
    std::string last_deleted_name;           // name of the entity most recently handed to a delete call
    bool del_result;
    std::vector<Kept> del_handles;           // handles to the victim and its subtree members taken before deletion
    void take_victim_handles(const std::string &id);
    // long-lived handles
    template<typename T> T via_live(int kind, const T &fresh, T Kept::*member);
    void check_live(const Node &doc);
};

void progress(int idx, int kind);
extern bool g_blind_twin;      // set by the zygote in the child that executes the unobserved twin
bool plan_is_twin(const Plan &p);
int create_array_op(World &w, const Op &op);
int create_frame_op(World &w, const Op &op);
int exec_special_op(World &w, const Op &op);

// helper used by several files
std::string dtype_name(nix::DataType dt);
nix::DataType dtype_by_index(int i);      // 12 array element types
int dtype_count();
size_t dtype_size(nix::DataType dt);
bool wellformed_uuid(const std::string &s);
std::string long_name(int len);

} // namespace sim
#endif
