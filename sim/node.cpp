#include "node.hpp"
#include <cstring>
#include <cstdio>
#include <map>

namespace sim {

std::string hex64(uint64_t v) { char b[32]; snprintf(b, sizeof b, "%016llx", (unsigned long long) v); return b; }
std::string dbl_bits(double d) {
    uint64_t u; memcpy(&u, &d, 8);
    char b[64]; snprintf(b, sizeof b, "%.17g/%016llx", d, (unsigned long long) u); return b;
}

static std::string esc(const std::string &s) {
    std::string o;
    for (unsigned char c : s) {
        if (c < 32 || c == '\\' || c >= 127) { char b[8]; snprintf(b, sizeof b, "\\x%02x", c); o += b; }
        else o += (char) c;
    }
    return o;
}

std::string render(const Node &n, int indent) {
    std::string o(indent * 2, ' ');
    o += n.key.empty() ? "-" : esc(n.key);
    if (!n.val.empty() || n.kids.empty()) { o += ": "; o += esc(n.val.size() > 200 ? n.val.substr(0, 200) + "..." : n.val); }
    if (n.list) o += " [" + std::to_string(n.kids.size()) + "]";
    o += "\n";
    for (auto &c : n.kids) o += render(c, indent + 1);
    return o;
}

static bool looks_like_id_key(const std::string &k) { return k == "id"; }

void hash_node(const Node &n, Hash &h, bool abstract_ids) {
    h.str(n.key);
    if (abstract_ids && (looks_like_id_key(n.key) || n.key == "created_at" || n.key == "name" || n.key == "ref" || n.key.compare(0, 4, "lnk_") == 0)) h.str(n.val.size() > 10 ? "*" : n.val);
    else h.str(n.val);
    h.u64(n.kids.size());
    for (auto &c : n.kids) hash_node(c, h, abstract_ids);
}
uint64_t node_hash(const Node &n, bool abstract_ids) { Hash h; hash_node(n, h, abstract_ids); return h.h; }

static std::string label_of(const Node &n, size_t idx) {
    if (!n.key.empty()) return n.key;
    std::string nm = n.field("name");
    return "[" + std::to_string(idx) + (nm.empty() ? "" : ":" + esc(nm)) + "]";
}

static bool gone_match(const std::string &a, const std::string &b) {
    if (a == "<gone>") return b.empty() || b == "<none>" || b == "<throws>";
    return false;
}

static bool eq_rec(const Node &a, const Node &b, const std::string &path, std::string &where) {
    if (a.key != b.key) { where = path + ": key '" + esc(a.key) + "' != '" + esc(b.key) + "'"; return false; }
    if (a.val != b.val && !gone_match(a.val, b.val) && !gone_match(b.val, a.val)) {
        where = path + ": '" + esc(a.val.substr(0, 120)) + "' != '" + esc(b.val.substr(0, 120)) + "'"; return false;
    }
    if (a.val == "<gone>" || b.val == "<gone>") return true;   // whatever hangs below a vanished link is not compared
    size_t n = a.kids.size() < b.kids.size() ? a.kids.size() : b.kids.size();
    for (size_t i = 0; i < n; i++)
        if (!eq_rec(a.kids[i], b.kids[i], path + "/" + label_of(a.kids[i], i), where)) return false;
    if (a.kids.size() != b.kids.size()) {
        const Node &extra = a.kids.size() > b.kids.size() ? a.kids[n] : b.kids[n];
        where = path + ": " + std::to_string(a.kids.size()) + " != " + std::to_string(b.kids.size()) + " children (first extra: "
            + label_of(extra, n) + (extra.val.empty() ? "" : "=" + esc(extra.val.substr(0, 60))) + ")";
        return false;
    }
    return true;
}
bool node_equal(const Node &a, const Node &b, std::string &where) { return eq_rec(a, b, "", where); }

static void collect_ids_below(const Node &n, std::set<std::string> &out) {
    if (n.is_record()) out.insert(n.field("id"));
    for (auto &c : n.kids) collect_ids_below(c, out);
}
bool collect_subtree_ids(const Node &doc, const std::string &id, std::set<std::string> &out) {
    if (doc.is_record() && doc.field("id") == id) { collect_ids_below(doc, out); return true; }
    for (auto &c : doc.kids) if (collect_subtree_ids(c, id, out)) return true;
    return false;
}

void remove_ids(Node &doc, const std::set<std::string> &ids) {
    std::vector<Node> keep;
    for (auto &c : doc.kids) {
        if (c.is_record() && ids.count(c.field("id"))) continue;               // the entity itself
        if (doc.list && c.kids.empty() && c.key == "ref" && ids.count(c.val)) continue;   // link-list entry
        keep.push_back(c);
    }
    doc.kids.swap(keep);
    for (auto &c : doc.kids) {
        if (!doc.list && c.kids.empty() && c.key.size() > 4 && c.key.compare(0, 4, "lnk_") == 0 && ids.count(c.val)) c.val = "<gone>";
        remove_ids(c, ids);
    }
    // count fields derived from lists are recomputed by the caller's observe, not stored
}

void collect_records(const Node &doc, const std::string &prefix, std::vector<std::pair<std::string, std::string> > &out) {
    for (auto &c : doc.kids) {
        std::string p = prefix;
        if (c.is_record()) {
            p += "/" + c.field("name");
            if (c.find("name") == nullptr) p += "#" + c.field("id");
            out.push_back(std::make_pair(p, c.field("id")));
        } else if (!c.key.empty()) p += "/" + c.key;
        collect_records(c, p, out);
    }
}

void collect_all_ids(const Node &doc, std::vector<std::string> &out) {
    for (auto &c : doc.kids) {
        if (c.key == "id" && c.kids.empty()) out.push_back(c.val);
        collect_all_ids(c, out);
    }
}

static std::string elem_ident(const Node &e) {
    if (e.is_record()) return e.field("id");
    return e.val;
}

static bool order_rec(const Node &a, const Node &b, const std::string &path, std::string &where) {
    bool entity_list = a.list && b.list;
    for (auto &k : a.kids) if (!(k.is_record() || k.key == "ref")) entity_list = false;
    for (auto &k : b.kids) if (!(k.is_record() || k.key == "ref")) entity_list = false;
    if (entity_list) {
        std::map<std::string, size_t> posb;
        for (size_t i = 0; i < b.kids.size(); i++) posb[elem_ident(b.kids[i])] = i;
        std::set<std::string> ina;
        long last = -1;
        for (size_t i = 0; i < a.kids.size(); i++) {
            std::string id = elem_ident(a.kids[i]);
            ina.insert(id);
            auto it = posb.find(id);
            if (it == posb.end()) continue;
            if ((long) it->second < last) { where = path + ": survivor " + id + " moved before an earlier sibling"; return false; }
            last = (long) it->second;
        }
        // new elements must come after all survivors
        bool seen_new = false;
        for (size_t i = 0; i < b.kids.size(); i++) {
            bool is_new = !ina.count(elem_ident(b.kids[i]));
            if (is_new) seen_new = true;
            else if (seen_new) { where = path + ": new element placed before survivor " + elem_ident(b.kids[i]); return false; }
        }
    }
    // recurse on children matched by identity (records) or key
    for (size_t i = 0; i < a.kids.size(); i++) {
        const Node &ca = a.kids[i];
        const Node *cb = nullptr;
        if (ca.is_record()) {
            std::string id = ca.field("id");
            for (auto &x : b.kids) if (x.is_record() && x.field("id") == id) { cb = &x; break; }
        } else if (!ca.key.empty()) cb = b.find(ca.key);
        if (cb && !order_rec(ca, *cb, path + "/" + label_of(ca, i), where)) return false;
    }
    return true;
}
bool order_preserved(const Node &before, const Node &after, std::string &where) { return order_rec(before, after, "", where); }

} // namespace sim
