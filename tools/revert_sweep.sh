#!/bin/sh
cd /verif
run() { c=$1; p=$2; git -C /repo diff $c~1 $c > /tmp/rev-$c.diff; echo "=== revert $c -> $p"; KEEP=/verif/replays/fixed/$c TAIL=4 tools/try_patch.sh /tmp/rev-$c.diff $p quick -R; }
run 55606d2 C15
run e46ec19 C01
# 44fc538 shares its lines with the later aecaa2c: its one effective line is removed by hand
mkdir -p /tmp/rev44/a/backend/hdf5 /tmp/rev44/b/backend/hdf5; cp /repo/backend/hdf5/BlockHDF5.cpp /tmp/rev44/a/backend/hdf5/; grep -v "^    data_type_to_h5_filetype(data_type);$" /repo/backend/hdf5/BlockHDF5.cpp > /tmp/rev44/b/backend/hdf5/BlockHDF5.cpp
(cd /tmp/rev44 && diff -u a/backend/hdf5/BlockHDF5.cpp b/backend/hdf5/BlockHDF5.cpp > /tmp/rev-44fc538.diff); echo "=== revert 44fc538 (by hand) -> C08"; KEEP=/verif/replays/fixed/44fc538 TAIL=4 tools/try_patch.sh /tmp/rev-44fc538.diff C08 quick
run 02dc91a C08
run 58f4a78 C08
run d18fe44 C08
run 9189eb7 C14
run 1a3957b C13
run 1241383 C16
run e36e5d5 C09
run f4c17a8 C16
run 503213e C04
run b2d5f57 C03
run 903a597 C14
run ca0ad29 C08
run ab8a88a C08
run ba78ae7 C16
run aecaa2c C08
run 17a059e C08
run 9604a2d C04
run 0d7cc73 C11
# ca33dc1 (second half of the close() repair) needs a delete followed by a persistent fault late in close(): its minimised replay is executed against the reverted commit
git -C /repo diff ca33dc1~1 ca33dc1 > /tmp/rev-ca33dc1.diff; for f in /verif/replays/fixed/ca33dc1/*.json; do python3 -c "import json,sys; d=json.load(open(sys.argv[1])); print(d['swarm']); print('\\n'.join(d['plan']))" $f > /tmp/rev-ca33dc1.plan; echo "=== revert ca33dc1 -> replay $f"; TAIL=1 tools/try_patch.sh /tmp/rev-ca33dc1.diff exec /tmp/rev-ca33dc1.plan -R | cut -c1-300; done
run 673ee5d C03
# F7 (1daf074) cannot be reverted textually any more (later commits touch the same lines): the same defect is re-introduced by hand
cat > /tmp/m_time_seed.diff <<'EOP'
--- a/src/util/util.cpp
+++ b/src/util/util.cpp
@@ -47,7 +47,7 @@ static boost::mt19937 seededGenerator() {
     std::random_device rd;
     std::vector<uint32_t> words(8);
     for (auto &w : words) {
-        w = rd();
+        w = static_cast<uint32_t>(time(0)) + static_cast<uint32_t>(&w - &words[0]);
     }
     std::seed_seq seq(words.begin(), words.end());
     boost::mt19937 gen;
EOP
echo "=== time-seed mutant -> C12"; KEEP=/verif/replays/fixed/1daf074 TAIL=4 tools/try_patch.sh /tmp/m_time_seed.diff C12 quick
# F25 (fd3e9e7) is too rare for a quick search (1 run in ~17000 of the modes lane): its minimised replay is executed against the reverted commit instead
git -C /repo diff fd3e9e7~1 fd3e9e7 > /tmp/rev-fd3e9e7.diff
python3 -c "
import json; d=json.load(open('/verif/replays/fixed/fd3e9e7/C09-1-6624-thorough.json')); open('/tmp/plan-fd3e9e7.txt','w').write(d['swarm']+'\n'+'\n'.join(d['plan'])+'\n')"
echo "=== revert fd3e9e7 -> replay of replays/fixed/fd3e9e7/C09-1-6624-thorough.json"; TAIL=3 tools/try_patch.sh /tmp/rev-fd3e9e7.diff exec /tmp/plan-fd3e9e7.txt -R 2>&1 | grep "^{" | cut -c1-220
