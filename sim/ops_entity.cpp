// Entity management operations: create / delete / link / unlink over every entity kind.
#include "engine.hpp"

using namespace nix;

namespace sim {

#define TRY(stmt) do { try { stmt; return 0; } catch (const std::exception &) { return 1; } } while (0)

// the refused member of a replace-whole-list call sits anywhere in the list: first, between acceptable ones, or last
template<typename T> static void put_somewhere(std::vector<T> &v, const T &x, sim::Rng &r) { v.insert(v.begin() + (long) r.below(v.size() + 1), x); }
static bool wants_foreign(int sel) { unsigned u = ((unsigned) sel) % 10; return u == 1 || u == 2; }

static const char *kUnknownId = "00000000-dead-4bad-8bad-00000000beef";

template<typename T> T World::via_live(int kind, const T &fresh, T Kept::*member) {
    if (!fresh) return fresh;
    std::string id;
    try { id = fresh.id(); } catch (const std::exception &) { return fresh; }
    std::string key = std::to_string(kind) + ":" + id;
    auto it = live.find(key);
    if (it != live.end()) {
        if (prefer_live) { cnt.inc("live_handles.reused"); return it->second.*member; }
        return fresh;
    }
    if (live.size() < 48) { Kept k; k.kind = kind; k.id = id; k.session = session; k.*member = fresh; live[key] = k; }
    return fresh;
}
#define REMEMBER(kindno, member, expr) do { auto h__ = (expr); if (h__ && live.size() < 48) { Kept k__; k__.kind = kindno; k__.id = h__.id(); k__.session = session; k__.member = h__; live[std::to_string(kindno) + ":" + k__.id] = k__; } } while (0)

Block World::blk(int slot) {
    ndsize_t n = f.blockCount();
    if (!n) return Block();
    return via_live(0, f.getBlock(((unsigned) slot) % n), &Kept::block);
}
DataArray World::arr_at(int b, int slot) {
    Block B = blk(b); if (!B) return DataArray();
    ndsize_t n = B.dataArrayCount(); if (!n) return DataArray();
    return via_live(1, B.getDataArray(((unsigned) slot) % n), &Kept::array);
}
DataFrame World::frame_at(int b, int slot) {
    Block B = blk(b); if (!B) return DataFrame();
    ndsize_t n = B.dataFrameCount();
    if (!n) return DataFrame();
    return via_live(2, B.getDataFrame(((unsigned) slot) % n), &Kept::frame);
}
Tag World::tag_at(int b, int slot) {
    Block B = blk(b); if (!B) return Tag();
    ndsize_t n = B.tagCount(); if (!n) return Tag();
    return via_live(3, B.getTag(((unsigned) slot) % n), &Kept::tag);
}
MultiTag World::mtag_at(int b, int slot) {
    Block B = blk(b); if (!B) return MultiTag();
    ndsize_t n = B.multiTagCount(); if (!n) return MultiTag();
    return via_live(4, B.getMultiTag(((unsigned) slot) % n), &Kept::mtag);
}
Group World::group_at(int b, int slot) {
    Block B = blk(b); if (!B) return Group();
    ndsize_t n = B.groupCount(); if (!n) return Group();
    return via_live(5, B.getGroup(((unsigned) slot) % n), &Kept::group);
}
static void walk_sources(const Source &s, std::vector<Source> &out, int depth) {
    out.push_back(s);
    if (depth > 6) return;
    for (auto &c : s.sources()) walk_sources(c, out, depth + 1);
}
std::vector<Source> World::all_sources(const Block &b) {
    std::vector<Source> out;
    for (auto &s : b.sources()) walk_sources(s, out, 1);
    return out;
}
Source World::source_at(int b, int slot) {
    Block B = blk(b); if (!B) return Source();
    std::vector<Source> v = all_sources(B);
    if (v.empty()) return Source();
    return via_live(6, v[((unsigned) slot) % v.size()], &Kept::source);
}
static void walk_sections(const Section &s, std::vector<Section> &out, int depth) {
    out.push_back(s);
    if (depth > 6) return;
    for (auto &c : s.sections()) walk_sections(c, out, depth + 1);
}
std::vector<Section> World::all_sections() {
    std::vector<Section> out;
    for (auto &s : f.sections()) walk_sections(s, out, 1);
    return out;
}
Section World::section_at(int slot) {
    std::vector<Section> v = all_sections();
    if (v.empty()) return Section();
    return via_live(7, v[((unsigned) slot) % v.size()], &Kept::section);
}
Property World::prop_at(int sec, int slot) {
    Section s = section_at(sec); if (!s) return Property();
    ndsize_t n = s.propertyCount(); if (!n) return Property();
    return via_live(8, s.getProperty(((unsigned) slot) % n), &Kept::property);
}

// A foreign entity (taken from the next block) for the "not in the same block" rejection classes.  Every other time one that shares
// its name with a local entity is preferred: whether something belongs to a block is a question of identity, not of its name.
DataArray World::foreign_arr(int b, int slot) {
    Block L = blk(b), F = blk(b + 1);
    if (!L || !F) return DataArray();
    if ((slot & 1) == 0) { for (auto &x : F.dataArrays()) if (L.hasDataArray(x.name()) && !L.hasDataArray(x.id())) { cnt.inc("foreign.namesake"); return x; } }
    return arr_at(b + 1, slot);
}
Source World::foreign_src(int b, int slot) {
    Block L = blk(b), F = blk(b + 1);
    if (!L || !F) return Source();
    if ((slot & 1) == 0) { for (auto &x : F.sources()) if (L.hasSource(x.name()) && !L.hasSource(x.id())) { cnt.inc("foreign.namesake"); return x; } }
    return source_at(b + 1, slot);
}
Tag World::foreign_tag(int b, int slot) {
    Block L = blk(b), F = blk(b + 1);
    if (!L || !F) return Tag();
    if ((slot & 1) == 0) { for (auto &x : F.tags()) if (L.hasTag(x.name()) && !L.hasTag(x.id())) { cnt.inc("foreign.namesake"); return x; } }
    return tag_at(b + 1, slot);
}

// A name given as "@fit:<T>" stands for a name of exactly the length that makes the stored path of the new entity (container path + '/'
// + name) T characters long; T is drawn next to powers of two.  Path and name lengths are where fixed-size buffers meet user input.
std::string long_name(int len) { std::string n = "L" + std::to_string(len) + "_"; while ((int) n.size() < len) n += (char) ('a' + (n.size() % 26)); n.resize((size_t) (len < 1 ? 1 : len)); return n; }
std::string World::resolve_name(const std::string &s, const std::string &container) {
    // a quarter of the creates that follow a delete give the new entity the name the deleted one had (of whatever kind it was): a
    // program that replaces something deletes it and creates its successor under the same name
    if (!last_deleted_name.empty() && cur >= 0 && (size_t) cur < plan.ops.size() && ((plan.ops[(size_t) cur].sub >> 17) & 3) == 0) { cnt.inc("names.reused_name_of_deleted"); return last_deleted_name; }
    if (s.compare(0, 5, "@fit:") != 0) return s;
    int T = atoi(s.c_str() + 5);
    int len = T - (int) container.size() - 1;
    cnt.inc("names.fitted_to_path_length");
    return long_name(len < 1 ? 1 : len);
}
std::string World::pick_type(int sel) {
    static const char *t[] = {"t", "nix.test", "type with space", "t", "t", "t"};
    unsigned u = (unsigned) sel % 40;
    if (u == 39) return "";          // invalid
    return t[u % 6];
}

static int section_depth(const Section &s) { int d = 1; Section p = s.parent(); while (p && d < 10) { d++; p = p.parent(); } return d; }
static int source_depth(const Block &b, const Source &s) { (void) b; int d = 1; Source p = s.parentSource(); while (p && d < 10) { d++; p = p.parentSource(); } return d; }


// A new holder entity whose name is chosen so that the stored path of its *link* to an existing entity (the later victim of a delete)
// is exactly T characters long, T next to a power of two: "/data/<block>/tags/<name>/references/<array id>" and the like.  Deleting
// an entity has to find and remove every such path; path lengths are where fixed-size buffers meet user input.
// a[0] block, a[1] victim slot, a[2] link kind, a[3] target length selector
int World::mk_fitted(const Op &op) {
    const int *a = op.a;
    Block b = blk(a[0]); if (!b) return 2;
    int kind = ((unsigned) a[2]) % 12;
    int T = (1 << (5 + ((unsigned) a[3]) % 6)) + (int) ((((unsigned) a[3]) / 6) % 3) - 1;
    static const struct { const char *container; int suffix; } L[12] = {
        {"tags", 12 + 36}, {"tags", 10 + 36 + 5}, {"multi_tags", 10}, {"multi_tags", 12 + 36}, {"groups", 13 + 36}, {"groups", 12 + 36},
        {"groups", 6 + 36}, {"groups", 12 + 36}, {"tags", 9 + 36}, {"data_arrays", 9}, {"", 5}, {"data_arrays", 24}};
    std::string container = kind == 10 ? std::string("/metadata") : "/data/" + b.name() + "/" + L[kind].container;
    int len = T - (int) container.size() - 1 - L[kind].suffix;
    arg_class = "link-kind=" + std::to_string(kind) + ",path=" + std::to_string(T);
    if (len < 1) return 2;
    std::string name = long_name(len);
    cnt.inc("names.link_path_fitted");
    // a compound step: once the holder exists the step counts as executed, whatever the link call says
#define LINK(stmt) do { try { stmt; } catch (const std::exception &) { cnt.inc("names.link_path_fitted.link_refused"); } return 0; } while (0)
    try {
        switch (kind) {
        case 0: { DataArray x = arr_at(a[0], a[1]); if (!x || b.hasTag(name)) return 2; Tag t = b.createTag(name, "t", {0.0}); LINK(t.addReference(x)); }
        case 1: { DataArray x = arr_at(a[0], a[1]); if (!x || b.hasTag(name)) return 2; Tag t = b.createTag(name, "t", {0.0}); LINK(t.createFeature(x, LinkType::Untagged)); }
        case 2: { DataArray x = arr_at(a[0], a[1]); if (!x || b.hasMultiTag(name)) return 2; b.createMultiTag(name, "t", x); return 0; }
        case 3: { DataArray x = arr_at(a[0], a[1]); if (!x || b.hasMultiTag(name)) return 2; MultiTag t = b.createMultiTag(name, "t", x); LINK(t.addReference(x)); }
        case 4: { DataArray x = arr_at(a[0], a[1]); if (!x || b.hasGroup(name)) return 2; Group g = b.createGroup(name, "t"); LINK(g.addDataArray(x)); }
        case 5: { DataFrame x = frame_at(a[0], a[1]); if (!x || b.hasGroup(name)) return 2; Group g = b.createGroup(name, "t"); LINK(g.addDataFrame(x)); }
        case 6: { Tag x = tag_at(a[0], a[1]); if (!x || b.hasGroup(name)) return 2; Group g = b.createGroup(name, "t"); LINK(g.addTag(x)); }
        case 7: { MultiTag x = mtag_at(a[0], a[1]); if (!x || b.hasGroup(name)) return 2; Group g = b.createGroup(name, "t"); LINK(g.addMultiTag(x)); }
        case 8: { Source x = source_at(a[0], a[1]); if (!x || b.hasTag(name)) return 2; Tag t = b.createTag(name, "t", {0.0}); LINK(t.addSource(x)); }
        case 9: { Section x = section_at(a[1]); if (!x || b.hasDataArray(name)) return 2; DataArray d = b.createDataArray(name, "t", DataType::Double, NDSize({2})); LINK(d.metadata(x)); }
        case 10: { Section x = section_at(a[1]); if (!x || f.hasSection(name)) return 2; Section s = f.createSection(name, "t"); LINK(s.link(x)); }
        default: { DataFrame x = frame_at(a[0], a[1]); if (!x || b.hasDataArray(name)) return 2; DataArray d = b.createDataArray(name, "t", DataType::Double, NDSize({2})); LINK(d.appendDataFrameDimension(x)); }
        }
    } catch (const std::exception &) { return 1; }
#undef LINK
}

// A linked structure built in one step (every call on its own: a step that is refused - the name exists, the file is ReadOnly - is
// skipped, existing entities of the same name are reused): a source tree three levels deep with several children per level, a section
// tree with properties and a link, data arrays with dimension descriptors, a tag and a multi-tag with references, features, positions
// and extents, a group with members of every kind, a data frame used as a dimension - cross-linked through sources and metadata down
// to the grandchildren.  Histories that delete, rename, re-link and restart then start from states single random creates seldom reach.
int World::mk_graph(const Op &op) {
    Rng r(op.sub);
    Block b = blk(op.a[0]); if (!b) return 2;
    std::string P = std::string("g") + std::to_string(((unsigned) op.a[2]) % 3);
    int ok = 0, threw = 0;
    // the light variant only plants namesakes: a root source, three arrays, a tag and a frame with the names the full structure uses
    bool lite = ((unsigned) op.a[1]) % 4 == 1;
    auto on = [&]() { return r.chance(3, 4); };
#define STEP(stmt) do { try { stmt; ok++; } catch (const std::exception &) { threw++; } } while (0)
    // sources
    Source R; if (b.hasSource(P + "_src")) R = b.getSource(P + "_src"); else STEP(R = b.createSource(P + "_src", "t"));
    std::vector<Source> kids, grand;
    int nk = lite ? 0 : 2 + (int) r.below(3);
    if (R) for (int i = 0; i < nk; i++) {
        std::string n = "c" + std::to_string(i);
        Source c; if (R.hasSource(n)) c = R.getSource(n); else STEP(c = R.createSource(n, "t"));
        if (!c) continue;
        kids.push_back(c);
        int ng = (int) r.below(3);
        // a grandchild is sometimes named like one of its uncles: names are unique per parent only
        for (int j = 0; j < ng; j++) { std::string gn = r.chance(1, 3) ? "c" + std::to_string(r.below((uint64_t) nk)) : "gc" + std::to_string(j); Source g; if (c.hasSource(gn)) g = c.getSource(gn); else STEP(g = c.createSource(gn, "t")); if (g) grand.push_back(g); }
    }
    // sections
    Section S; if (f.hasSection(P + "_sec")) S = f.getSection(P + "_sec"); else if (!lite) STEP(S = f.createSection(P + "_sec", "t"));
    std::vector<Section> subs;
    if (S) for (int i = 0; i < 3; i++) {
        std::string n = "s" + std::to_string(i);
        Section c; if (S.hasSection(n)) c = S.getSection(n); else STEP(c = S.createSection(n, "t"));
        if (!c) continue;
        subs.push_back(c);
        if (!c.hasProperty("p")) STEP(c.createProperty("p", Variant((int64_t) i)));
        // the nested section is sometimes named like one of its uncles
        { std::string dn = r.chance(1, 2) ? std::string("deep") : "s" + std::to_string(1 + r.below(2));
          if (i == 0 && on() && !c.hasSection(dn)) STEP(c.createSection(dn, "t").createProperty("q", Variant(std::string("v")))); }
    }
    if (subs.size() >= 2 && on()) STEP(subs[1].link(subs[0]));
    if (S && subs.size() >= 3 && on()) STEP(S.link(subs[2]));
    // arrays
    auto array = [&](const std::string &n, const NDSize &shape) { DataArray x; if (b.hasDataArray(n)) x = b.getDataArray(n); else STEP(x = b.createDataArray(n, "t", DataType::Double, shape)); return x; };
    DataArray d = array(P + "_d", NDSize({3, 4})), pos = array(P + "_pos", NDSize({2, 2})), ext = array(P + "_ext", NDSize({2, 2})), ft = array(P + "_ft", NDSize({4}));
    if (d && d.dimensionCount() == 0) { dims.erase(d.id());     /* (an array of that name may have come from a create operation, with a descriptor model) */
        STEP(d.appendSetDimension({"a", "b", "c"})); STEP(d.appendSampledDimension(0.5, "time", "ms")); }
    { const double pv[] = {0, 0, 1, 1}; if (pos) STEP(pos.setData(DataType::Double, pv, NDSize({2, 2}), NDSize({0, 0}))); }
    { const double ev[] = {1, 1, 1, 2}; if (ext) STEP(ext.setData(DataType::Double, ev, NDSize({2, 2}), NDSize({0, 0}))); }
    DataFrame fr;
    { std::vector<Column> cols(2); cols[0].name = "x"; cols[0].unit = "mV"; cols[0].dtype = DataType::Double; cols[1].name = "n"; cols[1].unit = ""; cols[1].dtype = DataType::String;
      if (b.hasDataFrame(P + "_fr")) fr = b.getDataFrame(P + "_fr"); else STEP(fr = b.createDataFrame(P + "_fr", "t", cols)); }
    if (fr && ft && ft.dimensionCount() == 0 && on()) { dims.erase(ft.id()); STEP(ft.appendDataFrameDimension(fr, 0u)); }
    // tag
    Tag T; if (b.hasTag(P + "_tag")) T = b.getTag(P + "_tag"); else STEP(T = b.createTag(P + "_tag", "t", {0.0, 0.0}));
    if (T) {
        if (d && on()) STEP(T.addReference(d));
        if (pos && on()) STEP(T.addReference(pos));
        if (ft && on() && T.featureCount() < 3) STEP(T.createFeature(ft, LinkType::Tagged));
        if (kids.size() >= 2 && on()) STEP(T.addSource(kids[1]));
        if (!grand.empty() && on()) STEP(T.addSource(grand[r.below(grand.size())]));
        if (!subs.empty() && on()) STEP(T.metadata(subs[0]));
    }
    if (lite) { cnt.inc("graph.lite"); arg_class = ok ? "built" : "refused"; return ok ? 0 : (threw ? 1 : 2); }
    // multi-tag
    MultiTag M; if (b.hasMultiTag(P + "_mt")) M = b.getMultiTag(P + "_mt"); else if (pos) STEP(M = b.createMultiTag(P + "_mt", "t", pos));
    if (M) {
        if (ext && on()) STEP(M.extents(ext));
        if (d && on()) STEP(M.addReference(d));
        if (ft && on() && M.featureCount() < 3) STEP(M.createFeature(ft, LinkType::Indexed));
        if (!kids.empty() && on()) STEP(M.addSource(kids.back()));
        if (subs.size() >= 2 && on()) STEP(M.metadata(subs[1]));
    }
    // group
    Group G; if (b.hasGroup(P + "_grp")) G = b.getGroup(P + "_grp"); else STEP(G = b.createGroup(P + "_grp", "t"));
    if (G) {
        if (d && on()) STEP(G.addDataArray(d));
        if (ft && on()) STEP(G.addDataArray(ft));
        if (T && on()) STEP(G.addTag(T));
        if (M && on()) STEP(G.addMultiTag(M));
        if (fr && on()) STEP(G.addDataFrame(fr));
        if (R && on()) STEP(G.addSource(R));
    }
    // sources and metadata of the arrays, the frame and the block
    if (d && kids.size() >= 2 && on()) STEP(d.addSource(kids[1]));
    if (d && !grand.empty() && on()) STEP(d.addSource(grand.back()));
    if (ft && kids.size() >= 2 && on()) STEP(ft.addSource(kids[kids.size() - 1]));
    if (fr && !kids.empty() && on()) STEP(fr.addSource(kids[0]));
    if (d && S && on()) STEP(d.metadata(S));
    if (S && on()) STEP(b.metadata(S));
    if (R && !subs.empty() && on()) STEP(R.metadata(subs.back()));
#undef STEP
    cnt.inc("graph.steps_ok", (uint64_t) ok); cnt.inc("graph.steps_refused", (uint64_t) threw);
    arg_class = ok ? "built" : "refused";
    return ok ? 0 : (threw ? 1 : 2);
}

void World::take_victim_handles(const std::string &id) {
    // handles to the victim (and, for trees, to its direct children) taken before the delete
    del_victim = id;
}

#define VICTIM(kindno, member, ent) do { Kept k; k.kind = kindno; k.member = ent; k.id = ent.id(); k.session = session; del_handles.push_back(k); } while (0)

// A delete call by handle whose argument is a perfectly valid entity - of another container.  Half of the time one is chosen that
// shares its name with something the addressed container does hold: which entity a handle designates is a question of identity.
// Whatever the call answers (false, an exception), C04's "every entity that was not deleted is left exactly as it was" must hold.
int World::del_misdirected(const Op &op) {
    if (mode != 0) return 2;
    // the variant drawn may have nothing to work with in this file: try the others in turn
    for (int k = 0; k < 11; k++) { int rc = del_misdirected_v(op, (int) ((((unsigned) op.a[2]) + (unsigned) k) % 11)); if (rc != 2) { cnt.inc("misdirected." + arg_class); return rc; } }
    return 2;
}
int World::del_misdirected_v(const Op &op, int v) {
    const int *a = op.a;
    Block L = blk(a[0]); if (!L) return 2;
    Block F = blk(a[0] + 1);
    bool two = F && F.id() != L.id();
    bool want_namesake = (a[3] & 1) == 0;
    expect_unchanged = "C04.untouched";
    // the block-level variants need a second block that holds an entity of the kind, preferably a namesake of one the addressed block holds:
    // where the file has none the op builds it first (ordinary, accepted creates), takes a fresh observation as the baseline, and only then
    // makes the call that designates the foreign entity
#define PICK_FOREIGN(T, list_expr, has_name, has_id, create_in) T x; { bool got = false, built = false; \
        if (!two) { if (f.hasBlock("the other block")) { expect_unchanged.clear(); return 2; } F = f.createBlock("the other block", "t"); two = true; built = true; } \
        std::vector<T> all = F.list_expr(); \
        if (all.empty()) { std::vector<T> mine = L.list_expr(); std::string nm = mine.empty() ? std::string("nn") : mine[((unsigned) a[1]) % mine.size()].name(); { Block &B = F; (void) create_in; } built = true; all = F.list_expr(); } \
        if (want_namesake) for (auto &c : all) if (L.has_name(c.name()) && !L.has_id(c.id())) { x = c; got = true; break; } \
        if (!got && !all.empty()) { x = all[((unsigned) a[1]) % all.size()]; got = !L.has_id(x.id()); \
            if (got && want_namesake && !L.has_name(x.name())) { std::string nm = x.name(); { Block &B = L; (void) create_in; } built = true; } } \
        if (!got) { expect_unchanged.clear(); return 2; } \
        if (L.has_name(x.name())) cnt.inc("misdirected.namesake"); \
        if (built && !blind) { last = obs(); have_last = true; if (failed()) return 0; } }
    switch (v) {
    case 0: { PICK_FOREIGN(Source, sources, hasSource, hasSource, B.createSource(nm, "t")) arg_class = "Block::deleteSource(foreign)"; misdirected_target = x.id(); TRY((void) L.deleteSource(x)); }
    case 1: { PICK_FOREIGN(DataArray, dataArrays, hasDataArray, hasDataArray, B.createDataArray(nm, "t", DataType::Double, NDSize({2}))) arg_class = "Block::deleteDataArray(foreign)"; misdirected_target = x.id(); TRY((void) L.deleteDataArray(x)); }
    case 2: { PICK_FOREIGN(DataFrame, dataFrames, hasDataFrame, hasDataFrame, B.createDataFrame(nm, "t", std::vector<Column>{Column{"c", "", DataType::Double}})) arg_class = "Block::deleteDataFrame(foreign)"; misdirected_target = x.id(); TRY((void) L.deleteDataFrame(x)); }
    case 3: { PICK_FOREIGN(Tag, tags, hasTag, hasTag, B.createTag(nm, "t", std::vector<double>{1.0})) arg_class = "Block::deleteTag(foreign)"; misdirected_target = x.id(); TRY((void) L.deleteTag(x)); }
    case 4: { PICK_FOREIGN(MultiTag, multiTags, hasMultiTag, hasMultiTag, B.createMultiTag(nm, "t", B.dataArrayCount() ? B.getDataArray((ndsize_t) 0) : B.createDataArray("positions of " + nm, "t", DataType::Double, NDSize({2, 1})))) arg_class = "Block::deleteMultiTag(foreign)"; misdirected_target = x.id(); TRY((void) L.deleteMultiTag(x)); }
    case 5: { PICK_FOREIGN(Group, groups, hasGroup, hasGroup, B.createGroup(nm, "t")) arg_class = "Block::deleteGroup(foreign)"; misdirected_target = x.id(); TRY((void) L.deleteGroup(x)); }
    case 6: {   // a source handed a source that is not its child (a sibling, a cousin, one of another block)
        std::vector<Source> all = all_sources(L); if (two) { std::vector<Source> o = all_sources(F); all.insert(all.end(), o.begin(), o.end()); }
        if (all.size() < 2) { expect_unchanged.clear(); return 2; }
        Source par = all[((unsigned) a[1]) % all.size()], x; bool got = false;
        if (want_namesake) for (auto &c : all) if (c.id() != par.id() && par.hasSource(c.name()) && !par.hasSource(c.id())) { x = c; got = true; cnt.inc("misdirected.namesake"); break; }
        if (!got) { x = all[((unsigned) a[4]) % all.size()]; got = x.id() != par.id() && !par.hasSource(x.id()); }
        if (!got) { expect_unchanged.clear(); return 2; }
        arg_class = "Source::deleteSource(not-a-child)"; misdirected_target = x.id(); TRY((void) par.deleteSource(x));
    }
    case 7: case 8: {   // a section (or the file) handed a section that is not its child
        std::vector<Section> all = all_sections(); if (all.size() < 2) { expect_unchanged.clear(); return 2; }
        if (v == 8) {
            Section x; bool got = false;
            for (size_t i = 0; i < all.size(); i++) { Section c = all[(i + (unsigned) a[1]) % all.size()]; if (c.parent() && (!want_namesake || f.hasSection(c.name()))) { x = c; got = true; break; } }
            if (!got) { expect_unchanged.clear(); return 2; }
            arg_class = "File::deleteSection(nested)"; misdirected_target = x.id(); TRY((void) f.deleteSection(x));
        }
        Section par = all[((unsigned) a[1]) % all.size()], x; bool got = false;
        if (want_namesake) for (auto &c : all) if (c.id() != par.id() && par.hasSection(c.name()) && !par.hasSection(c.id())) { x = c; got = true; cnt.inc("misdirected.namesake"); break; }
        if (!got) { x = all[((unsigned) a[4]) % all.size()]; got = x.id() != par.id() && !par.hasSection(x.id()); }
        if (!got) { expect_unchanged.clear(); return 2; }
        arg_class = "Section::deleteSection(not-a-child)"; misdirected_target = x.id(); TRY((void) par.deleteSection(x));
    }
    case 9: {   // a section handed a property of another section
        std::vector<Section> all = all_sections(); if (all.size() < 2) { expect_unchanged.clear(); return 2; }
        Section par = all[((unsigned) a[1]) % all.size()]; Property x; bool got = false;
        for (size_t i = 0; i < all.size() && !got; i++) { Section o = all[(i + (unsigned) a[4]) % all.size()]; if (o.id() == par.id()) continue;
            for (auto &p : o.properties()) if (!par.hasProperty(p.id()) && (!want_namesake || par.hasProperty(p.name()))) { x = p; got = true; break; } }
        if (!got) { expect_unchanged.clear(); return 2; }
        arg_class = "Section::deleteProperty(foreign)"; misdirected_target = x.id(); TRY((void) par.deleteProperty(x));
    }
    case 10: {  // a tag handed a feature of another tag
        std::vector<Tag> ts = L.tags(); if (two) { std::vector<Tag> o = F.tags(); ts.insert(ts.end(), o.begin(), o.end()); }
        if (ts.size() < 2) { expect_unchanged.clear(); return 2; }
        Tag t = ts[((unsigned) a[1]) % ts.size()]; Feature x; bool got = false;
        for (size_t i = 0; i < ts.size() && !got; i++) { Tag o = ts[(i + (unsigned) a[4]) % ts.size()]; if (o.id() == t.id()) continue; if (o.featureCount()) { x = o.getFeature((size_t) 0); got = !t.hasFeature(x.id()); } }
        if (!got) { expect_unchanged.clear(); return 2; }
        arg_class = "Tag::deleteFeature(foreign)"; misdirected_target = x.id(); TRY((void) t.deleteFeature(x));
    }
    default: break;
    }
    expect_unchanged.clear();
    return 2;
#undef PICK_FOREIGN
}

// A program replaces something: it deletes a member of a container and creates the successor under the same name - through handles it
// looks up for the purpose, while other handles to the same container (the long-lived ones of this session) stay around.  Nothing is
// predicted: after the delete a fresh observation becomes the baseline, after the create the usual lookup-agreement, order and
// long-lived-handle oracles have their say.
int World::replace_member(const Op &op) {
    const int *a = op.a;
    if (mode != 0) return 2;
    int kind = ((unsigned) a[2]) % 8;
    bool by_id = (a[3] & 1) != 0;
    std::string nm;
    arg_class = "kind=" + std::to_string(kind) + (by_id ? ",by-id" : ",by-name");
    try {
        if (kind <= 1) {
            std::vector<Section> all = all_sections(); if (all.empty()) return 2;
            Section s = all[((unsigned) a[0]) % all.size()];                    // a handle of its own, not the session's long-lived one
            if (kind == 0) { ndsize_t n = s.propertyCount(); if (!n) return 2; Property p = s.getProperty(((unsigned) a[1]) % n); nm = p.name(); std::string id = p.id(); p = Property();
                if (!s.deleteProperty(by_id ? id : nm)) return 2; if (!blind) { last = obs(); have_last = true; if (failed()) return 0; } s.createProperty(nm, Variant(std::string("successor"))); }
            else { ndsize_t n = s.sectionCount(); if (!n) return 2; Section c = s.getSection(((unsigned) a[1]) % n); nm = c.name(); std::string id = c.id(); c = Section();
                if (!s.deleteSection(by_id ? id : nm)) return 2; if (!blind) { last = obs(); have_last = true; if (failed()) return 0; } s.createSection(nm, "t"); }
        } else {
            ndsize_t nb = f.blockCount(); if (!nb) return 2;
            Block b = f.getBlock(((unsigned) a[0]) % nb);
#define REPLACE(countf, getf, delf, create_expr) { ndsize_t n = b.countf(); if (!n) return 2; auto e = b.getf(((unsigned) a[1]) % n); nm = e.name(); std::string id = e.id(); e = decltype(e)(); \
                if (!b.delf(by_id ? id : nm)) return 2; if (!blind) { last = obs(); have_last = true; if (failed()) return 0; } create_expr; }
            if (kind == 2) REPLACE(sourceCount, getSource, deleteSource, b.createSource(nm, "t"))
            else if (kind == 3) REPLACE(dataArrayCount, getDataArray, deleteDataArray, b.createDataArray(nm, "t", DataType::Double, NDSize({2})))
            else if (kind == 4) REPLACE(tagCount, getTag, deleteTag, b.createTag(nm, "t", std::vector<double>{1.0}))
            else if (kind == 5) REPLACE(groupCount, getGroup, deleteGroup, b.createGroup(nm, "t"))
            else if (kind == 6) REPLACE(dataFrameCount, getDataFrame, deleteDataFrame, b.createDataFrame(nm, "t", std::vector<Column>{Column{"c", "", DataType::Double}}))
            else { if (!b.dataArrayCount()) return 2; REPLACE(multiTagCount, getMultiTag, deleteMultiTag, b.createMultiTag(nm, "t", b.getDataArray((ndsize_t) 0))) }
#undef REPLACE
        }
    } catch (const std::exception &) { return 1; }
    cnt.inc("replace_member.kind" + std::to_string(kind));
    return 0;
}

int World::exec_entity(const Op &op) {
    const int *a = op.a;
    switch (op.kind) {
    // ------------------------------------------------------------------ file level
    case OP_create_block: {
        std::string name = resolve_name(op.s, "/data");
        if (a[5] == 1 && f.blockCount()) name = f.getBlock((ndsize_t) 0).id();
        arg_class = f.hasBlock(name) ? "dup" : (name.empty() || name.find('/') != std::string::npos) ? "bad-name" : "fresh";
        TRY(REMEMBER(0, block, f.createBlock(name, pick_type(a[0]))));
    }
    case OP_delete_block: {
        Block b = blk(a[0]); if (!b) return 2;
        take_victim_handles(b.id()); last_deleted_name = b.name(); VICTIM(0, block, b);
        int how = ((unsigned) a[1]) % 3;
        arg_class = how == 0 ? "by-name" : how == 1 ? "by-id" : "by-handle";
        TRY(del_result = (how == 0 ? f.deleteBlock(b.name()) : how == 1 ? f.deleteBlock(b.id()) : f.deleteBlock(b)));
    }
    case OP_create_section: {
        std::vector<Section> v = all_sections();
        unsigned p = ((unsigned) a[0]) % (v.size() + 1);
        std::string name = resolve_name(op.s, "/metadata");
        if (p == v.size() || section_depth(v[p]) >= 4) {
            if (a[5] == 1 && f.sectionCount()) name = f.getSection((ndsize_t) 0).id();
            arg_class = f.hasSection(name) ? "dup" : (name.empty() || name.find('/') != std::string::npos) ? "bad-name" : "fresh";
            TRY(REMEMBER(7, section, f.createSection(name, pick_type(a[1]))));
        }
        Section par = v[p];
        if (a[5] == 1 && par.sectionCount()) name = par.getSection((ndsize_t) 0).id();
        arg_class = par.hasSection(name) ? "dup,nested" : (name.empty() || name.find('/') != std::string::npos) ? "bad-name,nested" : "fresh,nested";
        TRY(REMEMBER(7, section, par.createSection(name, pick_type(a[1]))));
    }
    case OP_delete_section: {
        Section s = section_at(a[0]); if (!s) return 2;
        take_victim_handles(s.id()); last_deleted_name = s.name(); VICTIM(7, section, s);
        // handles to every direct child and property (a cascade that leaves out the second, or the last, of several is as wrong as one that
        // leaves out the first)
        { ndsize_t nc = s.sectionCount(); for (ndsize_t i = 0; i < nc && i < 8; i++) { Section c = s.getSection(i); VICTIM(7, section, c); } }
        { ndsize_t np = s.propertyCount(); for (ndsize_t i = 0; i < np && i < 8; i++) { Property p = s.getProperty(i); VICTIM(8, property, p); } }
        int how = ((unsigned) a[1]) % 3;
        Section par = s.parent();
        arg_class = std::string(how == 0 ? "by-name" : how == 1 ? "by-id" : "by-handle") + (par ? ",nested" : "");
        if (par) TRY(del_result = (how == 0 ? par.deleteSection(s.name()) : how == 1 ? par.deleteSection(s.id()) : par.deleteSection(s)));
        TRY(del_result = (how == 0 ? f.deleteSection(s.name()) : how == 1 ? f.deleteSection(s.id()) : f.deleteSection(s)));
    }
    // ------------------------------------------------------------------ block level
    case OP_create_source: {
        Block b = blk(a[0]); if (!b) return 2;
        std::vector<Source> v = all_sources(b);
        unsigned p = ((unsigned) a[1]) % (v.size() + 1);
        std::string name = resolve_name(op.s, "/data/" + b.name() + "/sources");
        if (p == v.size() || source_depth(b, v[p]) >= 4) {
            if (a[5] == 1 && b.sourceCount()) name = b.getSource((ndsize_t) 0).id();
            arg_class = b.hasSource(name) ? "dup" : (name.empty() || name.find('/') != std::string::npos) ? "bad-name" : "fresh";
            TRY(REMEMBER(6, source, b.createSource(name, pick_type(a[2]))));
        }
        Source par = v[p];
        arg_class = par.hasSource(name) ? "dup,nested" : (name.empty() || name.find('/') != std::string::npos) ? "bad-name,nested" : "fresh,nested";
        TRY(REMEMBER(6, source, par.createSource(name, pick_type(a[2]))));
    }
    case OP_delete_source: {
        Block b = blk(a[0]); if (!b) return 2;
        Source s = source_at(a[0], a[1]); if (!s) return 2;
        take_victim_handles(s.id()); last_deleted_name = s.name(); VICTIM(6, source, s);
        { ndsize_t nc = s.sourceCount(); for (ndsize_t i = 0; i < nc && i < 8; i++) { Source c = s.getSource(i); VICTIM(6, source, c); } }
        int how = ((unsigned) a[2]) % 3;
        Source par = s.parentSource();
        arg_class = std::string(how == 0 ? "by-name" : how == 1 ? "by-id" : "by-handle") + (par ? ",nested" : "");
        if (par) TRY(del_result = (how == 0 ? par.deleteSource(s.name()) : how == 1 ? par.deleteSource(s.id()) : par.deleteSource(s)));
        TRY(del_result = (how == 0 ? b.deleteSource(s.name()) : how == 1 ? b.deleteSource(s.id()) : b.deleteSource(s)));
    }
    case OP_delete_array: {
        Block b = blk(a[0]); if (!b) return 2;
        DataArray x = arr_at(a[0], a[1]); if (!x) return 2;
        take_victim_handles(x.id()); last_deleted_name = x.name(); VICTIM(1, array, x);
        int how = ((unsigned) a[2]) % 3;
        bool alias = false;
        try { if (x.dimensionCount() == 1 && x.getDimension(1).dimensionType() == DimensionType::Range && x.getDimension(1).asRangeDimension().alias()) alias = true; } catch (const std::exception &) {}
        arg_class = std::string(how == 0 ? "by-name" : how == 1 ? "by-id" : "by-handle") + (alias ? ",alias-dimension" : "");
        TRY(del_result = (how == 0 ? b.deleteDataArray(x.name()) : how == 1 ? b.deleteDataArray(x.id()) : b.deleteDataArray(x)));
    }
    case OP_delete_frame: {
        Block b = blk(a[0]); if (!b) return 2;
        DataFrame x = frame_at(a[0], a[1]); if (!x) return 2;
        take_victim_handles(x.id()); last_deleted_name = x.name(); VICTIM(2, frame, x);
        int how = ((unsigned) a[2]) % 3;
        arg_class = how == 0 ? "by-name" : how == 1 ? "by-id" : "by-handle";
        TRY(del_result = (how == 0 ? b.deleteDataFrame(x.name()) : how == 1 ? b.deleteDataFrame(x.id()) : b.deleteDataFrame(x)));
    }
    case OP_create_tag: {
        Block b = blk(a[0]); if (!b) return 2;
        Rng r(op.sub);
        std::vector<double> pos; int n = r.range(0, 3);
        for (int i = 0; i < n; i++) pos.push_back((double) r.range(-2, 10) * 0.5);
        std::string name = resolve_name(op.s, "/data/" + b.name() + "/tags");
        if (a[5] == 1 && b.tagCount()) name = b.getTag((ndsize_t) 0).id();
        arg_class = b.hasTag(name) ? "dup" : (name.empty() || name.find('/') != std::string::npos) ? "bad-name" : "fresh";
        TRY(REMEMBER(3, tag, b.createTag(name, pick_type(a[1]), pos)));
    }
    case OP_delete_tag: {
        Block b = blk(a[0]); if (!b) return 2;
        Tag x = tag_at(a[0], a[1]); if (!x) return 2;
        take_victim_handles(x.id()); last_deleted_name = x.name(); VICTIM(3, tag, x);
        int how = ((unsigned) a[2]) % 3;
        arg_class = how == 0 ? "by-name" : how == 1 ? "by-id" : "by-handle";
        TRY(del_result = (how == 0 ? b.deleteTag(x.name()) : how == 1 ? b.deleteTag(x.id()) : b.deleteTag(x)));
    }
    case OP_create_mtag: {
        Block b = blk(a[0]); if (!b) return 2;
        DataArray pos;
        int variant = ((unsigned) a[3]) % 12;
        if (variant == 0) { pos = DataArray(); arg_class = "none-positions"; }
        else if (variant == 1 && f.blockCount() > 1) { pos = foreign_arr(a[0], a[2]); arg_class = "foreign-positions"; if (pos && b.hasDataArray(pos.id())) arg_class = "own-positions"; }
        else { pos = arr_at(a[0], a[2]); arg_class = "own-positions"; if (!pos) arg_class = "none-positions"; }
        std::string name = resolve_name(op.s, "/data/" + b.name() + "/multi_tags");
        if (b.hasMultiTag(name)) arg_class += ",dup";
        else if (name.empty() || name.find('/') != std::string::npos) arg_class += ",bad-name";
        TRY(REMEMBER(4, mtag, b.createMultiTag(name, pick_type(a[1]), pos)));
    }
    case OP_delete_mtag: {
        Block b = blk(a[0]); if (!b) return 2;
        MultiTag x = mtag_at(a[0], a[1]); if (!x) return 2;
        take_victim_handles(x.id()); last_deleted_name = x.name(); VICTIM(4, mtag, x);
        int how = ((unsigned) a[2]) % 3;
        arg_class = how == 0 ? "by-name" : how == 1 ? "by-id" : "by-handle";
        TRY(del_result = (how == 0 ? b.deleteMultiTag(x.name()) : how == 1 ? b.deleteMultiTag(x.id()) : b.deleteMultiTag(x)));
    }
    case OP_create_group: {
        Block b = blk(a[0]); if (!b) return 2;
        std::string name = resolve_name(op.s, "/data/" + b.name() + "/groups");
        arg_class = b.hasGroup(name) ? "dup" : (name.empty() || name.find('/') != std::string::npos) ? "bad-name" : "fresh";
        TRY(REMEMBER(5, group, b.createGroup(name, pick_type(a[1]))));
    }
    case OP_delete_group: {
        Block b = blk(a[0]); if (!b) return 2;
        Group x = group_at(a[0], a[1]); if (!x) return 2;
        take_victim_handles(x.id()); last_deleted_name = x.name(); VICTIM(5, group, x);
        int how = ((unsigned) a[2]) % 3;
        arg_class = how == 0 ? "by-name" : how == 1 ? "by-id" : "by-handle";
        TRY(del_result = (how == 0 ? b.deleteGroup(x.name()) : how == 1 ? b.deleteGroup(x.id()) : b.deleteGroup(x)));
    }
    // ------------------------------------------------------------------ generic attributes / links
#define WITH_ENT(kind, b, slot, BODY) \
    switch (((unsigned) (kind)) % 8) { \
        case 0: { Block e = blk(b); if (!e) return 2; BODY } \
        case 1: { DataArray e = arr_at(b, slot); if (!e) return 2; BODY } \
        case 2: { DataFrame e = frame_at(b, slot); if (!e) return 2; BODY } \
        case 3: { Tag e = tag_at(b, slot); if (!e) return 2; BODY } \
        case 4: { MultiTag e = mtag_at(b, slot); if (!e) return 2; BODY } \
        case 5: { Group e = group_at(b, slot); if (!e) return 2; BODY } \
        case 6: { Source e = source_at(b, slot); if (!e) return 2; BODY } \
        default: { Section e = section_at(slot); if (!e) return 2; BODY } }
#define WITH_ENT7(kind, b, slot, BODY) \
    switch (((unsigned) (kind)) % 7) { \
        case 0: { Block e = blk(b); if (!e) return 2; BODY } \
        case 1: { DataArray e = arr_at(b, slot); if (!e) return 2; BODY } \
        case 2: { DataFrame e = frame_at(b, slot); if (!e) return 2; BODY } \
        case 3: { Tag e = tag_at(b, slot); if (!e) return 2; BODY } \
        case 4: { MultiTag e = mtag_at(b, slot); if (!e) return 2; BODY } \
        case 5: { Group e = group_at(b, slot); if (!e) return 2; BODY } \
        default: { Source e = source_at(b, slot); if (!e) return 2; BODY } }
#define WITH_SRC_ENT(kind, b, slot, BODY) \
    switch (((unsigned) (kind)) % 5) { \
        case 0: { DataArray e = arr_at(b, slot); if (!e) return 2; BODY } \
        case 1: { DataFrame e = frame_at(b, slot); if (!e) return 2; BODY } \
        case 2: { Tag e = tag_at(b, slot); if (!e) return 2; BODY } \
        case 3: { MultiTag e = mtag_at(b, slot); if (!e) return 2; BODY } \
        default: { Group e = group_at(b, slot); if (!e) return 2; BODY } }
    case OP_set_meta: {
        int variant = ((unsigned) a[4]) % 8;
        Section s = section_at(a[3]);
        if (!s && variant > 1) variant = 0;
        arg_class = variant == 0 ? "none" : variant == 1 ? "unknown-id" : variant == 2 ? "by-id" : "by-handle";
        int kind = ((unsigned) a[0]) % 7;
        WITH_ENT7(kind, a[1], a[2],
            if (variant == 0) TRY(e.metadata(nix::none));
            if (variant == 1) TRY(e.metadata(std::string(kUnknownId)));
            if (variant == 2) TRY(e.metadata(s.id()));
            TRY(e.metadata(s));
        )
    }
    case OP_set_def: {
        int variant = ((unsigned) a[3]) % 8;
        arg_class = variant == 0 ? "none" : variant == 1 ? "empty" : "string";
        WITH_ENT(a[0], a[1], a[2],
            if (variant == 0) TRY(e.definition(nix::none));
            if (variant == 1) TRY(e.definition(std::string("")));
            TRY(e.definition(std::string("def ") + std::to_string(op.sub % 1000)));
        )
    }
    case OP_set_type: {
        int variant = ((unsigned) a[3]) % 8;
        arg_class = variant == 1 ? "empty" : "string";
        WITH_ENT(a[0], a[1], a[2],
            if (variant == 1) TRY(e.type(std::string("")));
            TRY(e.type(std::string("ty") + std::to_string(op.sub % 7)));
        )
    }
    case OP_add_source: {
        int variant = ((unsigned) a[4]) % 10;
        Source s = source_at(a[1], a[3]);
        if (variant == 1 && f.blockCount() > 1) { s = foreign_src(a[1], a[3]); arg_class = "foreign"; }
        else if (variant == 2) arg_class = "unknown-id";
        else if (variant == 3) arg_class = "by-id";
        else arg_class = "by-handle";
        if (!s && variant != 2) return 2;
        WITH_SRC_ENT(a[0], a[1], a[2],
            if (variant == 2) TRY(e.addSource(std::string(kUnknownId)));
            if (variant == 3) TRY(e.addSource(s.id()));
            TRY(e.addSource(s));
        )
    }
    case OP_rm_source: {
        WITH_SRC_ENT(a[0], a[1], a[2],
            ndsize_t n = e.sourceCount(); if (!n) return 2;
            Source s = e.getSource((size_t) (((unsigned) a[3]) % n));
            if (a[4] & 1) TRY(e.removeSource(s.id()));
            TRY(e.removeSource(s));
        )
    }
    case OP_set_sources: {
        Block b = blk(a[1]); if (!b) return 2;
        std::vector<Source> all = all_sources(b), pick;
        Rng r(op.sub);
        for (auto &s : all) if (r.chance(1, 2)) pick.push_back(s);
        arg_class = "own";
        if (wants_foreign(a[4]) && f.blockCount() > 1) { Source fs = foreign_src(a[1], a[3]); if (fs) { put_somewhere(pick, fs, r); arg_class = "foreign-member"; } }
        WITH_SRC_ENT(a[0], a[1], a[2], TRY(e.sources(pick)); )
    }
    // ------------------------------------------------------------------ tags and multi-tags
    case OP_tag_pos: {
        Tag t = tag_at(a[0], a[1]); if (!t) return 2;
        Rng r(op.sub); std::vector<double> v; int n = r.range(0, 3);
        for (int i = 0; i < n; i++) v.push_back((double) r.range(-4, 20) * 0.25);
        TRY(t.position(v));
    }
    case OP_tag_extent: {
        Tag t = tag_at(a[0], a[1]); if (!t) return 2;
        if (((unsigned) a[2]) % 5 == 0) TRY(t.extent(nix::none));
        Rng r(op.sub); std::vector<double> v; int n = r.range(0, 3);
        for (int i = 0; i < n; i++) v.push_back((double) r.range(0, 12) * 0.5);
        TRY(t.extent(v));
    }
    case OP_tag_units: {
        static const char *units[] = {"ms", "s", "mV", "Hz", "kHz", "uA", "foo", "none", "m/s", ""};
        Rng r(op.sub); std::vector<std::string> v; int n = r.range(0, 3);
        bool bad = false;
        for (int i = 0; i < n; i++) { int u = r.range(0, 9); if (u == 6) bad = true; v.push_back(units[u]); }
        arg_class = bad ? "non-si" : "si";
        int variant = ((unsigned) a[3]) % 6;
        if (a[2] & 1) { MultiTag t = mtag_at(a[0], a[1]); if (!t) return 2; if (variant == 0) TRY(t.units(nix::none)); TRY(t.units(v)); }
        Tag t = tag_at(a[0], a[1]); if (!t) return 2;
        if (variant == 0) TRY(t.units(nix::none));
        TRY(t.units(v));
    }
#define WITH_TAG(is_multi, b, slot, BODY) \
    if ((is_multi) & 1) { MultiTag t = mtag_at(b, slot); if (!t) return 2; BODY } \
    else { Tag t = tag_at(b, slot); if (!t) return 2; BODY }
    case OP_tag_addref: {
        int variant = ((unsigned) a[4]) % 10;
        DataArray x = arr_at(a[0], a[3]);
        if (variant == 1 && f.blockCount() > 1) { x = foreign_arr(a[0], a[3]); arg_class = "foreign"; }
        else if (variant == 2) arg_class = "unknown-id";
        else if (variant == 3) arg_class = "by-id";
        else if (variant == 4) arg_class = "by-name";
        else if (variant == 5) { x = DataArray(); arg_class = "none-handle"; }
        else arg_class = "by-handle";
        if (!x && variant != 2 && variant != 5) return 2;
        WITH_TAG(a[1], a[0], a[2],
            if (variant == 2) TRY(t.addReference(std::string(kUnknownId)));
            if (variant == 3) TRY(t.addReference(x.id()));
            if (variant == 4) TRY(t.addReference(x.name()));
            TRY(t.addReference(x));
        )
    }
    case OP_tag_rmref: {
        WITH_TAG(a[1], a[0], a[2],
            ndsize_t n = t.referenceCount(); if (!n) return 2;
            DataArray x = t.getReference((size_t) (((unsigned) a[3]) % n));
            if (((unsigned) a[4]) % 3 == 1) TRY(t.removeReference(x.id()));
            if (((unsigned) a[4]) % 3 == 2) TRY(t.removeReference(x.name()));
            TRY(t.removeReference(x));
        )
    }
    case OP_tag_setrefs: {
        Block b = blk(a[0]); if (!b) return 2;
        std::vector<DataArray> pick; Rng r(op.sub);
        for (auto &x : b.dataArrays()) if (r.chance(1, 2)) pick.push_back(x);
        arg_class = "own";
        if (wants_foreign(a[4]) && f.blockCount() > 1) { DataArray fx = foreign_arr(a[0], a[3]); if (fx) { put_somewhere(pick, fx, r); arg_class = "foreign-member"; } }
        WITH_TAG(a[1], a[0], a[2], TRY(t.references(pick)); )
    }
    case OP_feat_create: {
        int variant = ((unsigned) a[4]) % 10;
        DataArray x = arr_at(a[0], a[3]);
        if (variant == 1 && f.blockCount() > 1) { x = foreign_arr(a[0], a[3]); arg_class = "foreign"; }
        else if (variant == 2) arg_class = "unknown-id";
        else if (variant == 3) arg_class = "by-id";
        else if (variant == 5) { x = DataArray(); arg_class = "none-handle"; }
        else arg_class = "by-handle";
        if (!x && variant != 2 && variant != 5) return 2;
        LinkType lt = (LinkType) (((unsigned) a[5]) % 3);
        WITH_TAG(a[1], a[0], a[2],
            if (variant == 2) TRY(t.createFeature(std::string(kUnknownId), lt));
            if (variant == 3) TRY(t.createFeature(x.id(), lt));
            TRY(t.createFeature(x, lt));
        )
    }
    case OP_feat_delete: {
        WITH_TAG(a[1], a[0], a[2],
            ndsize_t n = t.featureCount(); if (!n) return 2;
            Feature ft = t.getFeature((size_t) (((unsigned) a[3]) % n));
            take_victim_handles(ft.id()); VICTIM(9, feature, ft);
            if (a[4] & 1) TRY(del_result = t.deleteFeature(ft.id()));
            TRY(del_result = t.deleteFeature(ft));
        )
    }
    case OP_feat_link: {
        WITH_TAG(a[1], a[0], a[2],
            ndsize_t n = t.featureCount(); if (!n) return 2;
            Feature ft = t.getFeature((size_t) (((unsigned) a[3]) % n));
            TRY(ft.linkType((LinkType) (((unsigned) a[4]) % 3)));
        )
    }
    case OP_feat_data: {
        int variant = ((unsigned) a[4]) % 10;
        DataArray x = arr_at(a[0], a[5]);
        if (variant == 1 && f.blockCount() > 1) { x = foreign_arr(a[0], a[5]); arg_class = "foreign"; }
        else if (variant == 2) arg_class = "unknown-id";
        else if (variant == 3) arg_class = "by-id";
        else arg_class = "by-handle";
        if (!x && variant != 2) return 2;
        WITH_TAG(a[1], a[0], a[2],
            ndsize_t n = t.featureCount(); if (!n) return 2;
            Feature ft = t.getFeature((size_t) (((unsigned) a[3]) % n));
            if (variant == 2) TRY(ft.data(std::string(kUnknownId)));
            if (variant == 3) TRY(ft.data(x.id()));
            TRY(ft.data(x));
        )
    }
    case OP_mtag_positions: {
        MultiTag t = mtag_at(a[0], a[1]); if (!t) return 2;
        int variant = ((unsigned) a[3]) % 10;
        DataArray x = arr_at(a[0], a[2]);
        if (variant == 1 && f.blockCount() > 1) { x = foreign_arr(a[0], a[2]); arg_class = "foreign"; }
        else if (variant == 2) arg_class = "unknown-id";
        else if (variant == 3) arg_class = "by-id";
        else if (variant == 5) { x = DataArray(); arg_class = "none-handle"; }
        else arg_class = "by-handle";
        if (!x && variant != 2 && variant != 5) return 2;
        if (variant == 2) TRY(t.positions(std::string(kUnknownId)));
        if (variant == 3) TRY(t.positions(x.id()));
        TRY(t.positions(x));
    }
    case OP_mtag_extents: {
        MultiTag t = mtag_at(a[0], a[1]); if (!t) return 2;
        int variant = ((unsigned) a[3]) % 10;
        DataArray x = arr_at(a[0], a[2]);
        if (variant == 0) { arg_class = "none"; TRY(t.extents(nix::none)); }
        if (variant == 1 && f.blockCount() > 1) { x = foreign_arr(a[0], a[2]); arg_class = "foreign"; }
        else if (variant == 2) arg_class = "unknown-id";
        else if (variant == 3) arg_class = "by-id";
        else arg_class = "by-handle";
        if (!x && variant != 2) return 2;
        if (variant == 2) TRY(t.extents(std::string(kUnknownId)));
        if (variant == 3) TRY(t.extents(x.id()));
        TRY(t.extents(x));
    }
    // ------------------------------------------------------------------ groups
    case OP_group_add: case OP_group_rm: {
        Group g = group_at(a[0], a[1]); if (!g) return 2;
        int mk = ((unsigned) a[2]) % 4;
        int variant = ((unsigned) a[4]) % 10;
        bool add = op.kind == OP_group_add;
        int bsel = (add && variant == 1 && f.blockCount() > 1) ? a[0] + 1 : a[0];
        arg_class = (bsel != a[0]) ? "foreign" : variant == 2 ? "unknown-id" : variant == 3 ? "by-id" : variant == 4 ? "by-name" : "by-handle";
#define GROUP_MEMBER(T, getter, addf, rmf, cntf, getmember) { \
            if (add) { T x = getter(bsel, a[3]); if (!x && variant != 2) return 2; \
                if (variant == 2) TRY(g.addf(std::string(kUnknownId))); \
                if (variant == 3) TRY(g.addf(x.id())); \
                if (variant == 4) TRY(g.addf(x.name())); \
                TRY(g.addf(x)); } \
            else { ndsize_t n = g.cntf(); if (!n) return 2; T x = g.getmember((size_t) (((unsigned) a[3]) % n)); \
                if (variant == 3) TRY(g.rmf(x.id())); \
                if (variant == 4) TRY(g.rmf(x.name())); \
                TRY(g.rmf(x)); } }
        if (mk == 0) GROUP_MEMBER(DataArray, arr_at, addDataArray, removeDataArray, dataArrayCount, getDataArray)
        if (mk == 1) GROUP_MEMBER(DataFrame, frame_at, addDataFrame, removeDataFrame, dataFrameCount, getDataFrame)
        if (mk == 2) GROUP_MEMBER(Tag, tag_at, addTag, removeTag, tagCount, getTag)
        GROUP_MEMBER(MultiTag, mtag_at, addMultiTag, removeMultiTag, multiTagCount, getMultiTag)
    }
    case OP_group_set: {
        Group g = group_at(a[0], a[1]); if (!g) return 2;
        Block b = blk(a[0]);
        int mk = ((unsigned) a[2]) % 4;
        Rng r(op.sub);
        bool foreign = wants_foreign(a[4]) && f.blockCount() > 1;
        arg_class = foreign ? "foreign-member" : "own";
        int keep = r.range(1, 3);      // how many of the block's entities go into the list: about a third, a half or two thirds
        if (mk == 0) { std::vector<DataArray> v; for (auto &x : b.dataArrays()) if (r.chance(keep, 4)) v.push_back(x); if (foreign) { DataArray y = foreign_arr(a[0], a[3]); if (y) put_somewhere(v, y, r); } TRY(g.dataArrays(v)); }
        if (mk == 1) { std::vector<DataFrame> v; for (auto &x : b.dataFrames()) if (r.chance(keep, 4)) v.push_back(x); if (foreign) { DataFrame y = frame_at(a[0] + 1, a[3]); if (y) put_somewhere(v, y, r); } TRY(g.dataFrames(v)); }
        if (mk == 2) { std::vector<Tag> v; for (auto &x : b.tags()) if (r.chance(keep, 4)) v.push_back(x); if (foreign) { Tag y = foreign_tag(a[0], a[3]); if (y) put_somewhere(v, y, r); } TRY(g.tags(v)); }
        { std::vector<MultiTag> v; for (auto &x : b.multiTags()) if (r.chance(keep, 4)) v.push_back(x); if (foreign) { MultiTag y = mtag_at(a[0] + 1, a[3]); if (y) put_somewhere(v, y, r); } TRY(g.multiTags(v)); }
    }
    // ------------------------------------------------------------------ sections
    case OP_sec_link: {
        Section s = section_at(a[0]); if (!s) return 2;
        int variant = ((unsigned) a[2]) % 8;
        Section tgt = section_at(a[1]);
        arg_class = variant == 0 ? "none" : variant == 1 ? "unknown-id" : variant == 2 ? "by-id" : "by-handle";
        if (variant == 0) TRY(s.link(nix::none));
        if (variant == 1) TRY(s.link(std::string(kUnknownId)));
        if (variant == 2) TRY(s.link(tgt.id()));
        TRY(s.link(tgt));
    }
    case OP_sec_repo: {
        Section s = section_at(a[0]); if (!s) return 2;
        int variant = ((unsigned) a[1]) % 6;
        arg_class = variant == 0 ? "none" : variant == 1 ? "empty" : "string";
        if (variant == 0) TRY(s.repository(nix::none));
        if (variant == 1) TRY(s.repository(std::string("")));
        TRY(s.repository(std::string("http://repo/") + std::to_string(op.sub % 100)));
    }
    case OP_force_id: TRY(f.forceId());
    case OP_mk_graph: return mk_graph(op);
    case OP_mk_fitted: return mk_fitted(op);
    case OP_del_misdirected: return del_misdirected(op);
    case OP_replace_member: return replace_member(op);
    case OP_mk_crowd: {
        // many entities at once - more than any fixed-size table of a few hundred entries holds - and the program keeps a handle to every
        // one of them across the next close()
        if (mode != 0) return 2;
        static const int sizes[] = {257, 300, 513, 260};
        int n = sizes[((unsigned) a[1]) % 4];
        std::string bn = "crowd" + std::to_string(((unsigned) a[0]) % 3);
        if (f.hasBlock(bn)) return 2;
        arg_class = "n=" + std::to_string(n);
        try {
            Block b = f.createBlock(bn, "t");
            int kind = ((unsigned) a[2]) % 3;
            for (int i = 0; i < n; i++) {
                std::string nm = "m" + std::to_string(i);
                if (kind == 0) b.createSource(nm, "t");
                else if (kind == 1) b.createGroup(nm, "t");
                else b.createTag(nm, "t", std::vector<double>{(double) i});
            }
        } catch (const std::exception &) { return 1; }
        cnt.inc("crowd.built");
        if (blind) return 0;
        // ... close (all the C11 oracles of a close apply), reopen, compare - and take the crowd away again, so that the rest of the run
        // is not spent walking it
        last = obs(); have_last = true; if (failed()) return 0;
        hoard_next_close = true;
        { Op ro; ro.kind = OP_reopen; ro.a[0] = 0; ro.a[1] = a[3] & 1; ro.a[2] = a[4]; ro.sub = op.sub; exec_session(ro); }
        if (failed() || !is_open) return 0;
        try { f.deleteBlock(bn); } catch (const std::exception &) { return 1; }
        last = obs(); have_last = true;
        return 0;
    }
    case OP_force_created: {
        // a creation time stamped deliberately (forceCreatedAt is public API): the epoch, the second before it, the 32-bit boundary, far
        // future and past dates, the current simulated second.  Nothing is predicted; the restart differential says whether it survives
        static const long long ts[] = {0, 1, -1, 2147483647LL, 2147483648LL, 2147483649LL, 4000000000LL, 1000000000LL, -86400LL * 365, 86399, 951782400LL /* 2000-02-29 */, 1709164800LL /* 2024-02-29 */};
        unsigned sel = ((unsigned) a[3]) % 13;
        time_t t = sel == 12 ? (time_t) clock_now() : (time_t) ts[sel];
        arg_class = "t=" + std::to_string((long long) t);
        must_succeed = "C02.created-at";
        switch (((unsigned) a[2]) % 10) {
            case 0: TRY(f.forceCreatedAt(t));
            case 1: { Block b = blk(a[0]); if (!b) return 2; TRY(b.forceCreatedAt(t)); }
            case 2: { DataArray x = arr_at(a[0], a[1]); if (!x) return 2; TRY(x.forceCreatedAt(t)); }
            case 3: { DataFrame x = frame_at(a[0], a[1]); if (!x) return 2; TRY(x.forceCreatedAt(t)); }
            case 4: { Tag x = tag_at(a[0], a[1]); if (!x) return 2; TRY(x.forceCreatedAt(t)); }
            case 5: { MultiTag x = mtag_at(a[0], a[1]); if (!x) return 2; TRY(x.forceCreatedAt(t)); }
            case 6: { Group x = group_at(a[0], a[1]); if (!x) return 2; TRY(x.forceCreatedAt(t)); }
            case 7: { Source x = source_at(a[0], a[1]); if (!x) return 2; TRY(x.forceCreatedAt(t)); }
            case 8: { Section x = section_at(a[0]); if (!x) return 2; TRY(x.forceCreatedAt(t)); }
            default: { Property x = prop_at(a[0], a[1]); if (!x) return 2; TRY(x.forceCreatedAt(t)); }
        }
    }
    default: return 2;
    }
}

} // namespace sim
