// nixsim - deterministic simulation harness for G-Node/nix (see /verif/DESIGN.md)
#ifndef NIXSIM_SIM_HPP
#define NIXSIM_SIM_HPP

#include <cstdint>
#include <cstddef>
#include <string>
#include <vector>
#include <map>
#include <set>
#include <functional>
#include <stdexcept>

namespace sim {

// ---------------------------------------------------------------- PRNG
static inline uint64_t splitmix64(uint64_t &x) {
    uint64_t z = (x += 0x9e3779b97f4a7c15ULL);
    z = (z ^ (z >> 30)) * 0xbf58476d1ce4e5b9ULL;
    z = (z ^ (z >> 27)) * 0x94d049bb133111ebULL;
    return z ^ (z >> 31);
}
static inline uint64_t mix3(uint64_t a, uint64_t b, uint64_t c) {
    uint64_t s = a * 0x9e3779b97f4a7c15ULL + 0x1234567;
    uint64_t r = splitmix64(s);
    s ^= b * 0xc2b2ae3d27d4eb4fULL; r ^= splitmix64(s);
    s ^= c * 0x165667b19e3779f9ULL; r ^= splitmix64(s);
    return r;
}
struct Rng {
    uint64_t s;
    explicit Rng(uint64_t seed = 1) : s(seed) {}
    uint64_t next() { return splitmix64(s); }
    // uniform in [0,n)
    uint64_t below(uint64_t n) { return n ? next() % n : 0; }
    int range(int lo, int hi) { return lo + (int) below((uint64_t) (hi - lo + 1)); }
    bool chance(int num, int den) { return (int) below((uint64_t) den) < num; }
    // pick index according to integer weights
    int weighted(const std::vector<int> &w) {
        long tot = 0; for (int x : w) tot += x;
        if (tot <= 0) return 0;
        long r = (long) below((uint64_t) tot);
        for (size_t i = 0; i < w.size(); i++) { if (r < w[i]) return (int) i; r -= w[i]; }
        return (int) w.size() - 1;
    }
};

// ---------------------------------------------------------------- hashing
struct Hash {
    uint64_t h;
    Hash() : h(0xcbf29ce484222325ULL) {}
    void bytes(const void *p, size_t n) {
        const unsigned char *c = (const unsigned char *) p;
        for (size_t i = 0; i < n; i++) { h ^= c[i]; h *= 0x100000001b3ULL; }
    }
    void u64(uint64_t v) { bytes(&v, 8); }
    void str(const std::string &s) { u64(s.size()); bytes(s.data(), s.size()); }
};
uint64_t hash_bytes(const void *p, size_t n);

// ---------------------------------------------------------------- clock seam (shim.cpp)
void clock_enable(bool on);
void clock_set(int64_t sec);
int64_t clock_now();
uint64_t clock_reads();          // how often the simulated clock was read
double wall_now();               // real host time (raw syscall), never hashed

// ---------------------------------------------------------------- disk seam (shim.cpp)
enum FaultKind { F_NONE = 0, F_EIO = 1, F_ENOSPC = 2, F_SHORT = 3, F_EINTR = 4 };
struct DiskCounters {
    uint64_t opens, opens_write, closes, preads, pwrites, ftruncates, flocks, unlinks, bytes_written;
    uint64_t faults_armed, faults_fired[5], perturb_fired;
};
void disk_set_dir(const std::string &dir);   // everything under dir is "simulated"
const std::string &disk_dir();
uint64_t disk_event_hash();
void disk_reset_hash();
DiskCounters &disk_counters();
// per-path queries
int disk_open_fds(const std::string &path);           // descriptors currently open on path
uint64_t disk_write_calls(const std::string &path);   // cumulative write-class calls on path
uint64_t disk_any_calls(const std::string &path);     // cumulative calls of any kind on path
int disk_last_open_flags(const std::string &path);    // flags of most recent open(), -1 if never
int disk_write_opens(const std::string &path);        // number of opens with O_RDWR/O_WRONLY/O_CREAT/O_TRUNC
void disk_forget(const std::string &path);
// fault injection: fail the n-th (0-based) write-class call on simulated files from now
void disk_arm_fault(FaultKind kind, int nth, bool sticky = false);   // sticky: once it has fired every later write-class call fails too (EIO / ENOSPC)
bool disk_disarm_fault();                              // returns whether it fired
void disk_set_perturb(uint64_t seed, int per_mille);   // transparent short/EINTR perturbation
// byte store helpers (through raw syscalls; not logged)
bool disk_copy(const std::string &from, const std::string &to);
bool disk_read_all(const std::string &path, std::string &out);
bool disk_write_all(const std::string &path, const std::string &data);
void disk_remove(const std::string &path);
bool disk_exists(const std::string &path);

// ---------------------------------------------------------------- entropy seam
// (defined in shim.cpp; /repo calls nix_verif_entropy() when built with -DNIX_VERIF)
void entropy_seed(uint64_t seed);   // also switches the simulated source on (std::random_device, getrandom, getentropy, /dev/urandom)
void pid_set(int pid);              // simulated pid returned by getpid() (0 = real pid)
uint64_t entropy_draws();

// ---------------------------------------------------------------- HDF5 cache knob (wrap_h5f.cpp)
void h5knob_set(int chunk_cache_mode /*0=default,1=none,2=64k*/, int sieve_mode /*0=default,1=off*/);
uint64_t h5knob_applied();
void h5knob_mdc(int mode /*0=default 2 MiB adaptive metadata cache,1=fixed 128 KiB,2=fixed 32 KiB*/);
uint64_t h5knob_mdc_applied();
void h5knob_tbuf(int mode /*0=default 1 MiB conversion buffer,1=64 KiB,2=16 KiB*/);
uint64_t h5knob_tbuf_applied();
void h5_quiet();                // H5Eset_auto off
void h5_warm();                 // initialise libhdf5 without touching nix

} // namespace sim
#endif
