// observe(File) -> document: walks a nix file through public getters only.
#include "observe.hpp"
#include <nix.hpp>
#include <cstring>
#include <sstream>

using namespace nix;

namespace sim {

namespace {

struct Ctx {
    const ObsOpts *opt;
    std::vector<std::string> *viol;
    uint64_t getters;
    void bad(const std::string &m) { if (viol && viol->size() < 8) viol->push_back(m); }
    // every entity of the file by kind (gathered once per observation when the lookup predicates are evaluated): a has-query by handle
    // must also say *no* for a perfectly valid entity that merely is not a member (another block's array, a grandchild, the container itself)
    std::vector<DataArray> pool_arrays; std::vector<DataFrame> pool_frames; std::vector<Tag> pool_tags; std::vector<MultiTag> pool_mtags;
    std::vector<Group> pool_groups; std::vector<Source> pool_sources; std::vector<Section> pool_sections; std::vector<Property> pool_props;
    uint64_t rot;
    Ctx() : opt(nullptr), viol(nullptr), getters(0), rot(0) {}
};
const std::vector<DataArray> &pool_of(const Ctx &c, const DataArray *) { return c.pool_arrays; }
const std::vector<DataFrame> &pool_of(const Ctx &c, const DataFrame *) { return c.pool_frames; }
const std::vector<Tag> &pool_of(const Ctx &c, const Tag *) { return c.pool_tags; }
const std::vector<MultiTag> &pool_of(const Ctx &c, const MultiTag *) { return c.pool_mtags; }
const std::vector<Group> &pool_of(const Ctx &c, const Group *) { return c.pool_groups; }
const std::vector<Source> &pool_of(const Ctx &c, const Source *) { return c.pool_sources; }
const std::vector<Section> &pool_of(const Ctx &c, const Section *) { return c.pool_sections; }
const std::vector<Property> &pool_of(const Ctx &c, const Property *) { return c.pool_props; }
template<typename E> const std::vector<E> &pool_of(const Ctx &, const E *) { static const std::vector<E> none; return none; }

std::string opt_s(const boost::optional<std::string> &o) { return o ? "s:" + *o : "<none>"; }
std::string opt_d(const boost::optional<double> &o) { return o ? dbl_bits(*o) : "<none>"; }
std::string vec_d(const std::vector<double> &v) {
    std::string s = std::to_string(v.size()) + ":";
    for (double d : v) { s += dbl_bits(d); s += ","; }
    return s;
}
std::string vec_s(const std::vector<std::string> &v) {
    std::string s = std::to_string(v.size()) + ":";
    for (auto &x : v) { s += std::to_string(x.size()) + "'" + x + "',"; }
    return s;
}
std::string size_s(const NDSize &n) {
    std::string s = "(";
    for (size_t i = 0; i < n.size(); i++) { if (i) s += ","; s += std::to_string((unsigned long long) n[i]); }
    return s + ")";
}

#define FIELD(node, key, expr) \
    do { c.getters++; try { (node).add(key, (expr)); } catch (const std::exception &) { (node).add(key, "<throws>"); } } while (0)

} // namespace

std::string variant_str(const Variant &v) {
    switch (v.type()) {
        case DataType::Bool: return std::string("b:") + (v.get<bool>() ? "1" : "0");
        case DataType::Int32: return "i32:" + std::to_string(v.get<int32_t>());
        case DataType::UInt32: return "u32:" + std::to_string(v.get<uint32_t>());
        case DataType::Int64: return "i64:" + std::to_string((long long) v.get<int64_t>());
        case DataType::UInt64: return "u64:" + std::to_string((unsigned long long) v.get<uint64_t>());
        case DataType::Double: return "d:" + dbl_bits(v.get<double>());
        case DataType::String: { std::string s; v.get(s); return "s:" + std::to_string(s.size()) + "'" + s + "'"; }
        case DataType::Nothing: return "nothing";
        default: return "?";
    }
}

std::string read_array_raw(const DataArray &da, bool &ok) {
    ok = true;
    NDSize ext = da.dataExtent();
    DataType dt = da.dataType();
    ndsize_t n = ext.size() ? ext.nelms() : 0;
    if (n == 0) return "";
    if (n > (1u << 22)) { ok = false; return "<too big>"; }
    NDSize off(ext.size(), 0);
    if (dt == DataType::String) {
        std::vector<std::string> v((size_t) n, std::string("\x01never-assigned"));     // what a read leaves untouched stays visible
        da.getDataDirect(dt, v.data(), ext, off);
        std::string out;
        for (auto &s : v) { out += std::to_string(s.size()); out += "'"; out += s; out += "',"; }
        return out;
    }
    size_t es = data_type_to_size(dt);
    std::string buf((size_t) n * es, '\x5a');     // not zero: elements a read leaves untouched must not pass for stored zeros
    da.getDataDirect(dt, &buf[0], ext, off);
    return buf;
}

namespace {

// generic lookup-agreement check (C03.agree / C03.unique)
template<typename E>
void check_lookups(Ctx &c, const std::string &where, ndsize_t count, const std::vector<E> &all,
                   std::function<E(ndsize_t)> by_idx, std::function<E(const std::string &)> by_str,
                   std::function<bool(const std::string &)> has_str, std::function<bool(const E &)> has_ent,
                   bool named) {
    if (!c.opt->check_lookups) return;
    if (count != all.size()) c.bad("C03.agree " + where + ": count " + std::to_string((unsigned long long) count) + " != enumeration " + std::to_string(all.size()));
    // negative lookups: a name / id nobody has must not be found (and must not crash)
    try {
        if (has_str("no-such-entity-name")) c.bad("C03.agree " + where + ": has(name) true for a name no member has");
        if (has_str("0f0f0f0f-dead-4bad-8bad-00000000beef")) c.bad("C03.agree " + where + ": has(id) true for an id no member has");
        E none_e = by_str("no-such-entity-name");
        if (none_e) c.bad("C03.agree " + where + ": get(name) returned an entity for a name no member has");
    } catch (const std::exception &) { /* refusing with an exception is fine */ }
    std::set<std::string> names, ids;
    for (size_t i = 0; i < all.size(); i++) {
        std::string id, name;
        try {
            id = all[i].id();
            if (!ids.insert(id).second) c.bad("C03.unique " + where + ": id " + id + " enumerated twice");
            E a = by_idx(i);
            if (!a || a.id() != id) c.bad("C03.agree " + where + ": get(index " + std::to_string(i) + ") is not enumeration element " + std::to_string(i));
            E b = by_str(id);
            if (!b || b.id() != id) c.bad("C03.agree " + where + ": get(id) of element " + std::to_string(i) + " returns a different entity or none");
            if (!has_str(id)) c.bad("C03.agree " + where + ": has(id) false for element " + std::to_string(i));
            if (!has_ent(all[i])) c.bad("C03.agree " + where + ": has(entity) false for element " + std::to_string(i));
        } catch (const std::exception &e) {
            c.bad("C03.agree " + where + ": lookup of element " + std::to_string(i) + " threw: " + e.what());
        }
    }
    (void) named;
    // strangers: up to four valid entities of the kind that are not members
    {
        const std::vector<E> &pool = pool_of(c, (const E *) nullptr);
        int asked = 0;
        for (size_t k = 0; k < pool.size() && asked < 4; k++) {
            const E &x = pool[(k + (size_t) c.rot) % pool.size()];
            try {
                std::string xid = x.id();
                if (ids.count(xid)) continue;
                asked++;
                bool h = has_ent(x);
                if (h) c.bad("C03.agree " + where + ": has(entity) true for an entity that is not a member (" + xid + ")");
            } catch (const std::exception &) { /* refusing with an exception is fine */ }
        }
        c.rot += 3;
    }
}

template<typename E>
void check_names(Ctx &c, const std::string &where, const std::vector<E> &all,
                 std::function<E(const std::string &)> by_str, std::function<bool(const std::string &)> has_str) {
    if (!c.opt->check_lookups) return;
    std::set<std::string> names;
    for (size_t i = 0; i < all.size(); i++) {
        try {
            std::string id = all[i].id(), name = all[i].name();
            if (!names.insert(name).second) c.bad("C03.unique " + where + ": name '" + name + "' occurs twice");
            E b = by_str(name);
            if (!b || b.id() != id) c.bad("C03.agree " + where + ": get(name '" + name + "') returns a different entity or none");
            if (!has_str(name)) c.bad("C03.agree " + where + ": has(name '" + name + "') false");
        } catch (const std::exception &e) {
            c.bad("C03.agree " + where + ": name lookup of element " + std::to_string(i) + " threw: " + e.what());
        }
    }
}

template<typename E>
void named_fields(Ctx &c, Node &n, const E &e) {
    FIELD(n, "id", e.id());
    FIELD(n, "name", e.name());
    FIELD(n, "type", e.type());
    FIELD(n, "definition", opt_s(e.definition()));
    FIELD(n, "created_at", std::to_string((long long) e.createdAt()));
}

template<typename E>
void metadata_field(Ctx &c, Node &n, const E &e) {
    c.getters++;
    try { Section s = e.metadata(); n.add("lnk_metadata", s ? s.id() : "<none>"); }
    catch (const std::exception &) { n.add("lnk_metadata", "<throws>"); }
}

template<typename E>
void sources_field(Ctx &c, Node &n, const E &e, const std::string &where) {
    Node &l = n.sub("sources", true);
    try {
        std::vector<Source> v = e.sources();
        for (auto &s : v) l.add("ref", s.id());
        check_lookups<Source>(c, where + "/sources", e.sourceCount(), v,
            [&](ndsize_t i) { return e.getSource((size_t) i); }, [&](const std::string &s) { return e.getSource(s); },
            [&](const std::string &s) { return e.hasSource(s); }, [&](const Source &s) { return e.hasSource(s); }, false);
    } catch (const std::exception &) { l.val = "<throws>"; }
}

void obs_dim_fields(Ctx &c, Node &d, const Dimension &dim) {
    DimensionType t;
    try { t = dim.dimensionType(); } catch (const std::exception &) { d.add("kind", "<throws>"); return; }
    if (t == DimensionType::Sample) {
        d.add("kind", "sampled");
        SampledDimension s = dim.asSampledDimension();
        FIELD(d, "interval", dbl_bits(s.samplingInterval()));
        FIELD(d, "offset", opt_d(s.offset()));
        FIELD(d, "label", opt_s(s.label()));
        FIELD(d, "unit", opt_s(s.unit()));
        if (c.opt->check_dims) { try { if (!(s.samplingInterval() > 0)) c.bad("C13.sorted-positive stored sampling interval is not positive"); } catch (...) {} }
    } else if (t == DimensionType::Range) {
        d.add("kind", "range");
        RangeDimension r = dim.asRangeDimension();
        FIELD(d, "alias", r.alias() ? "1" : "0");
        FIELD(d, "ticks", vec_d(r.ticks()));
        FIELD(d, "label", opt_s(r.label()));
        FIELD(d, "unit", opt_s(r.unit()));
        if (c.opt->check_dims) {
            try {
                std::vector<double> tk = r.ticks();
                for (size_t k = 1; k < tk.size(); k++) if (!(tk[k - 1] <= tk[k])) { if (!r.alias()) c.bad("C13.sorted-positive stored ticks are not ascending"); break; }
            } catch (...) {}
        }
    } else if (t == DimensionType::Set) {
        d.add("kind", "set");
        SetDimension s = dim.asSetDimension();
        FIELD(d, "labels", vec_s(s.labels()));
        FIELD(d, "label", opt_s(s.label()));
    } else if (t == DimensionType::DataFrame) {
        d.add("kind", "frame");
        DataFrameDimension f = dim.asDataFrameDimension();
        c.getters++;
        try { DataFrame df = f.data(); d.add("lnk_frame", df ? df.id() : "<none>"); }
        catch (const std::exception &) { d.add("lnk_frame", "<throws>"); }
        c.getters++;
        try { boost::optional<unsigned> ci = f.columnIndex(); d.add("column", ci ? std::to_string(*ci) : "<none>"); }
        catch (const std::exception &) { d.add("column", "<throws>"); }
    } else d.add("kind", "?");
}

void obs_dims(Ctx &c, Node &n, const DataArray &da) {
    Node &l = n.sub("dims", true);
    try {
        std::vector<Dimension> dims = da.dimensions();
        ndsize_t cnt = da.dimensionCount();
        if (c.opt->check_dims && cnt != dims.size()) c.bad("C13.gapfree dimensionCount " + std::to_string((unsigned long long) cnt) + " != enumeration " + std::to_string(dims.size()));
        for (size_t i = 0; i < dims.size(); i++) {
            Node &d = l.sub("");
            Dimension &dim = dims[i];
            FIELD(d, "index", std::to_string((unsigned long long) dim.index()));
            if (c.opt->check_dims) {
                try {
                    if (dim.index() != i + 1) c.bad("C13.gapfree dimension at position " + std::to_string(i + 1) + " reports index " + std::to_string((unsigned long long) dim.index()));
                    Dimension g = da.getDimension(i + 1);
                    if (!g || g.dimensionType() != dim.dimensionType()) c.bad("C13.gapfree getDimension(" + std::to_string(i + 1) + ") disagrees with enumeration");
                } catch (const std::exception &e) { c.bad(std::string("C13.gapfree getDimension threw: ") + e.what()); }
            }
            obs_dim_fields(c, d, dim);
        }
    } catch (const std::exception &) { l.val = "<throws>"; }
}

void obs_array(Ctx &c, Node &n, const DataArray &da, const std::string &where) {
    named_fields(c, n, da);
    metadata_field(c, n, da);
    sources_field(c, n, da, where);
    FIELD(n, "label", opt_s(da.label()));
    FIELD(n, "unit", opt_s(da.unit()));
    FIELD(n, "origin", opt_d(da.expansionOrigin()));
    FIELD(n, "polynom", vec_d(da.polynomCoefficients()));
    FIELD(n, "dtype", data_type_to_string(da.dataType()));
    FIELD(n, "extent", size_s(da.dataExtent()));
    if (c.opt->read_data) {
        c.getters++;
        try { bool ok; std::string raw = read_array_raw(da, ok); n.add("data", std::to_string(raw.size()) + ":" + hex64(hash_bytes(raw.data(), raw.size()))); }
        catch (const std::exception &) { n.add("data", "<throws>"); }
    }
    obs_dims(c, n, da);
}

void obs_frame(Ctx &c, Node &n, const DataFrame &df, const std::string &where) {
    named_fields(c, n, df);
    metadata_field(c, n, df);
    sources_field(c, n, df, where);
    std::vector<Column> cols;
    c.getters++;
    try {
        cols = df.columns();
        std::string s = std::to_string(cols.size()) + ":";
        for (auto &col : cols) s += "'" + col.name + "'/'" + col.unit + "'/" + data_type_to_string(col.dtype) + ",";
        n.add("columns", s);
    } catch (const std::exception &) { n.add("columns", "<throws>"); }
    ndsize_t rows = 0;
    c.getters++;
    try { rows = df.rows(); n.add("rows", std::to_string((unsigned long long) rows)); } catch (const std::exception &) { n.add("rows", "<throws>"); }
    if (c.opt->read_data) {
        Node &l = n.sub("cells", true);
        DataFrame d2 = df;
        for (ndsize_t r = 0; r < rows && r < 4096; r++) {
            c.getters++;
            try {
                std::vector<Variant> v = d2.readRow(r);
                std::string s;
                for (auto &x : v) { s += variant_str(x); s += "|"; }
                l.add("row", s);
            } catch (const std::exception &) { l.add("row", "<throws>"); }
        }
    }
}

template<typename T>
void obs_refs_features(Ctx &c, Node &n, const T &tag, const std::string &where) {
    Node &l = n.sub("references", true);
    try {
        std::vector<DataArray> v = tag.references();
        for (auto &a : v) l.add("ref", a.id());
        check_lookups<DataArray>(c, where + "/references", tag.referenceCount(), v,
            [&](ndsize_t i) { return tag.getReference((size_t) i); }, [&](const std::string &s) { return tag.getReference(s); },
            [&](const std::string &s) { return tag.hasReference(s); }, [&](const DataArray &a) { return tag.hasReference(a); }, false);
        check_names<DataArray>(c, where + "/references", v, [&](const std::string &s) { return tag.getReference(s); },
            [&](const std::string &s) { return tag.hasReference(s); });
    } catch (const std::exception &) { l.val = "<throws>"; }
    Node &fl = n.sub("features", true);
    try {
        std::vector<Feature> v = tag.features();
        for (auto &f : v) {
            Node &fn = fl.sub("");
            FIELD(fn, "id", f.id());
            FIELD(fn, "created_at", std::to_string((long long) f.createdAt()));
            FIELD(fn, "link_type", link_type_to_string(f.linkType()));
            c.getters++;
            try { DataArray a = f.data(); fn.add("lnk_data", a ? a.id() : "<none>"); }
            catch (const std::exception &) { fn.add("lnk_data", "<throws>"); }
        }
        check_lookups<Feature>(c, where + "/features", tag.featureCount(), v,
            [&](ndsize_t i) { return tag.getFeature((size_t) i); }, [&](const std::string &s) { return tag.getFeature(s); },
            [&](const std::string &s) { return tag.hasFeature(s); }, [&](const Feature &f) { return tag.hasFeature(f); }, false);
    } catch (const std::exception &) { fl.val = "<throws>"; }
}

void obs_tag(Ctx &c, Node &n, const Tag &t, const std::string &where) {
    named_fields(c, n, t);
    metadata_field(c, n, t);
    sources_field(c, n, t, where);
    FIELD(n, "position", vec_d(t.position()));
    FIELD(n, "extent", vec_d(t.extent()));
    FIELD(n, "units", vec_s(t.units()));
    obs_refs_features(c, n, t, where);
}

void obs_mtag(Ctx &c, Node &n, const MultiTag &t, const std::string &where) {
    named_fields(c, n, t);
    metadata_field(c, n, t);
    sources_field(c, n, t, where);
    c.getters++;
    try { DataArray a = t.positions(); n.add("lnk_positions", a ? a.id() : "<none>"); }
    catch (const std::exception &) { n.add("lnk_positions", "<throws>"); }
    c.getters++;
    try { DataArray a = t.extents(); n.add("lnk_extents", a ? a.id() : "<none>"); }
    catch (const std::exception &) { n.add("lnk_extents", "<throws>"); }
    FIELD(n, "units", vec_s(t.units()));
    obs_refs_features(c, n, t, where);
}

template<typename E, typename G>
void obs_members(Ctx &c, Node &n, const char *key, const G &, const std::string &where,
                 std::function<std::vector<E>()> all, std::function<ndsize_t()> count,
                 std::function<E(ndsize_t)> by_idx, std::function<E(const std::string &)> by_str,
                 std::function<bool(const std::string &)> has_str, std::function<bool(const E &)> has_ent) {
    Node &l = n.sub(key, true);
    try {
        std::vector<E> v = all();
        for (auto &a : v) l.add("ref", a.id());
        check_lookups<E>(c, where + "/" + key, count(), v, by_idx, by_str, has_str, has_ent, false);
        check_names<E>(c, where + "/" + key, v, by_str, has_str);
    } catch (const std::exception &) { l.val = "<throws>"; }
}

void obs_group(Ctx &c, Node &n, const Group &g, const std::string &where) {
    named_fields(c, n, g);
    metadata_field(c, n, g);
    sources_field(c, n, g, where);
    obs_members<DataArray>(c, n, "data_arrays", g, where, [&] { return g.dataArrays(); }, [&] { return g.dataArrayCount(); },
        [&](ndsize_t i) { return g.getDataArray((size_t) i); }, [&](const std::string &s) { return g.getDataArray(s); },
        [&](const std::string &s) { return g.hasDataArray(s); }, [&](const DataArray &a) { return g.hasDataArray(a); });
    obs_members<DataFrame>(c, n, "data_frames", g, where, [&] { return g.dataFrames(); }, [&] { return g.dataFrameCount(); },
        [&](ndsize_t i) { return g.getDataFrame(i); }, [&](const std::string &s) { return g.getDataFrame(s); },
        [&](const std::string &s) { return g.hasDataFrame(s); }, [&](const DataFrame &a) { return g.hasDataFrame(a); });
    obs_members<Tag>(c, n, "tags", g, where, [&] { return g.tags(); }, [&] { return g.tagCount(); },
        [&](ndsize_t i) { return g.getTag((size_t) i); }, [&](const std::string &s) { return g.getTag(s); },
        [&](const std::string &s) { return g.hasTag(s); }, [&](const Tag &a) { return g.hasTag(a); });
    obs_members<MultiTag>(c, n, "multi_tags", g, where, [&] { return g.multiTags(); }, [&] { return g.multiTagCount(); },
        [&](ndsize_t i) { return g.getMultiTag((size_t) i); }, [&](const std::string &s) { return g.getMultiTag(s); },
        [&](const std::string &s) { return g.hasMultiTag(s); }, [&](const MultiTag &a) { return g.hasMultiTag(a); });
}

void obs_source(Ctx &c, Node &n, const Source &s, const std::string &where, int depth) {
    named_fields(c, n, s);
    metadata_field(c, n, s);
    Node &l = n.sub("sources", true);
    if (depth > 8) return;
    try {
        std::vector<Source> v = s.sources();
        for (size_t i = 0; i < v.size(); i++) { Node &k = l.sub(""); obs_source(c, k, v[i], where + "/" + k.field("name"), depth + 1); }
        check_lookups<Source>(c, where + "/sources", s.sourceCount(), v,
            [&](ndsize_t i) { return s.getSource(i); }, [&](const std::string &x) { return s.getSource(x); },
            [&](const std::string &x) { return s.hasSource(x); }, [&](const Source &x) { return s.hasSource(x); }, true);
        check_names<Source>(c, where + "/sources", v, [&](const std::string &x) { return s.getSource(x); }, [&](const std::string &x) { return s.hasSource(x); });
    } catch (const std::exception &) { l.val = "<throws>"; }
}

void obs_property(Ctx &c, Node &n, const Property &p) {
    FIELD(n, "id", p.id());
    FIELD(n, "name", p.name());
    FIELD(n, "created_at", std::to_string((long long) p.createdAt()));
    FIELD(n, "dtype", data_type_to_string(p.dataType()));
    FIELD(n, "definition", opt_s(p.definition()));
    FIELD(n, "unit", opt_s(p.unit()));
    FIELD(n, "uncertainty", opt_d(p.uncertainty()));
    FIELD(n, "value_count", std::to_string((unsigned long long) p.valueCount()));
    c.getters++;
    try {
        std::vector<Variant> v = p.values();
        std::string s = std::to_string(v.size()) + ":";
        for (auto &x : v) { s += variant_str(x); s += "|"; }
        n.add("values", s);
    } catch (const std::exception &) { n.add("values", "<throws>"); }
}

void obs_section(Ctx &c, Node &n, const Section &s, const std::string &where, int depth) {
    named_fields(c, n, s);
    FIELD(n, "repository", opt_s(s.repository()));
    c.getters++;
    try { Section l = s.link(); n.add("lnk_link", l ? l.id() : "<none>"); } catch (const std::exception &) { n.add("lnk_link", "<throws>"); }
    Node &pl = n.sub("properties", true);
    try {
        std::vector<Property> v = s.properties();
        for (auto &p : v) { Node &k = pl.sub(""); obs_property(c, k, p); }
        check_lookups<Property>(c, where + "/properties", s.propertyCount(), v,
            [&](ndsize_t i) { return s.getProperty(i); }, [&](const std::string &x) { return s.getProperty(x); },
            [&](const std::string &x) { return s.hasProperty(x); }, [&](const Property &x) { return s.hasProperty(x); }, true);
        check_names<Property>(c, where + "/properties", v, [&](const std::string &x) { return s.getProperty(x); }, [&](const std::string &x) { return s.hasProperty(x); });
    } catch (const std::exception &) { pl.val = "<throws>"; }
    Node &l = n.sub("sections", true);
    if (depth > 8) return;
    try {
        std::vector<Section> v = s.sections();
        for (size_t i = 0; i < v.size(); i++) { Node &k = l.sub(""); obs_section(c, k, v[i], where + "/" + k.field("name"), depth + 1); }
        check_lookups<Section>(c, where + "/sections", s.sectionCount(), v,
            [&](ndsize_t i) { return s.getSection(i); }, [&](const std::string &x) { return s.getSection(x); },
            [&](const std::string &x) { return s.hasSection(x); }, [&](const Section &x) { return s.hasSection(x); }, true);
        check_names<Section>(c, where + "/sections", v, [&](const std::string &x) { return s.getSection(x); }, [&](const std::string &x) { return s.hasSection(x); });
    } catch (const std::exception &) { l.val = "<throws>"; }
}

#define CONTAINER(E, key, allf, countf, getf, hasf, obsf) \
    do { Node &l = n.sub(key, true); \
      try { std::vector<E> v = b.allf(); \
        for (size_t i = 0; i < v.size(); i++) { Node &k = l.sub(""); obsf(c, k, v[i], where + "/" key); } \
        check_lookups<E>(c, where + "/" key, b.countf(), v, [&](ndsize_t i) { return b.getf(i); }, [&](const std::string &x) { return b.getf(x); }, \
            [&](const std::string &x) { return b.hasf(x); }, [&](const E &x) { return b.hasf(x); }, true); \
        check_names<E>(c, where + "/" key, v, [&](const std::string &x) { return b.getf(x); }, [&](const std::string &x) { return b.hasf(x); }); \
      } catch (const std::exception &) { l.val = "<throws>"; } } while (0)

void obs_source0(Ctx &c, Node &n, const Source &s, const std::string &where) { obs_source(c, n, s, where, 1); }

void obs_block(Ctx &c, Node &n, const Block &b, const std::string &where) {
    named_fields(c, n, b);
    metadata_field(c, n, b);
    CONTAINER(DataArray, "data_arrays", dataArrays, dataArrayCount, getDataArray, hasDataArray, obs_array);
    CONTAINER(DataFrame, "data_frames", dataFrames, dataFrameCount, getDataFrame, hasDataFrame, obs_frame);
    CONTAINER(Tag, "tags", tags, tagCount, getTag, hasTag, obs_tag);
    CONTAINER(MultiTag, "multi_tags", multiTags, multiTagCount, getMultiTag, hasMultiTag, obs_mtag);
    CONTAINER(Group, "groups", groups, groupCount, getGroup, hasGroup, obs_group);
    CONTAINER(Source, "sources", sources, sourceCount, getSource, hasSource, obs_source0);
}

void obs_section0(Ctx &c, Node &n, const Section &s, const std::string &where) { obs_section(c, n, s, where, 1); }

} // namespace

namespace {
template<typename E> void upd(std::map<std::string, std::string> &out, const std::string &path, const E &e) {
    try { out[path] = std::to_string((long long) e.updatedAt()); } catch (const std::exception &) { out[path] = "<throws>"; }
}
void upd_sources(std::map<std::string, std::string> &out, const std::string &path, const Source &s, int depth) {
    upd(out, path, s);
    if (depth > 8) return;
    try { for (auto &c : s.sources()) upd_sources(out, path + "/" + c.name(), c, depth + 1); } catch (const std::exception &) {}
}
void upd_sections(std::map<std::string, std::string> &out, const std::string &path, const Section &s, int depth) {
    upd(out, path, s);
    try { for (auto &p : s.properties()) upd(out, path + "/properties/" + p.name(), p); } catch (const std::exception &) {}
    if (depth > 8) return;
    try { for (auto &c : s.sections()) upd_sections(out, path + "/" + c.name(), c, depth + 1); } catch (const std::exception &) {}
}
}
void observe_updated(const File &f, std::map<std::string, std::string> &out) {
    out.clear();
    upd(out, "/", f);
    try {
        for (auto &b : f.blocks()) {
            std::string bp = "/blocks/" + b.name();
            upd(out, bp, b);
            for (auto &x : b.dataArrays()) upd(out, bp + "/data_arrays/" + x.name(), x);
            for (auto &x : b.dataFrames()) upd(out, bp + "/data_frames/" + x.name(), x);
            for (auto &x : b.tags()) { upd(out, bp + "/tags/" + x.name(), x); try { for (auto &ft : x.features()) upd(out, bp + "/tags/" + x.name() + "/features/" + ft.id(), ft); } catch (const std::exception &) {} }
            for (auto &x : b.multiTags()) { upd(out, bp + "/multi_tags/" + x.name(), x); try { for (auto &ft : x.features()) upd(out, bp + "/multi_tags/" + x.name() + "/features/" + ft.id(), ft); } catch (const std::exception &) {} }
            for (auto &x : b.groups()) upd(out, bp + "/groups/" + x.name(), x);
            for (auto &x : b.sources()) upd_sources(out, bp + "/sources/" + x.name(), x, 1);
        }
        for (auto &s : f.sections()) upd_sections(out, "/sections/" + s.name(), s, 1);
    } catch (const std::exception &) {}
}

static ObsOpts g_plain_opts;
#define SINGLE(name, T, body) Node name(const T &e) { Ctx c; c.opt = &g_plain_opts; Node n; body; return n; }
SINGLE(observe_block, Block, { named_fields(c, n, e); metadata_field(c, n, e); })
SINGLE(observe_array, DataArray, obs_array(c, n, e, ""))
SINGLE(observe_frame, DataFrame, obs_frame(c, n, e, ""))
SINGLE(observe_tag, Tag, obs_tag(c, n, e, ""))
SINGLE(observe_mtag, MultiTag, obs_mtag(c, n, e, ""))
SINGLE(observe_group, Group, obs_group(c, n, e, ""))
SINGLE(observe_source, Source, { named_fields(c, n, e); metadata_field(c, n, e); })
SINGLE(observe_section, Section, { named_fields(c, n, e); FIELD(n, "repository", opt_s(e.repository())); c.getters++; try { Section l = e.link(); n.add("lnk_link", l ? l.id() : "<none>"); } catch (const std::exception &) { n.add("lnk_link", "<throws>"); }
    Node &pl = n.sub("properties", true); try { for (auto &p : e.properties()) { Node &k = pl.sub(""); obs_property(c, k, p); } } catch (const std::exception &) { pl.val = "<throws>"; } })
SINGLE(observe_property, Property, obs_property(c, n, e))
SINGLE(observe_dimension, Dimension, { FIELD(n, "index", std::to_string((unsigned long long) e.index())); obs_dim_fields(c, n, e); })

Node observe(const File &b, const ObsOpts &opt, std::vector<std::string> *viol, uint64_t *getters) {
    Ctx c; c.opt = &opt; c.viol = viol; c.getters = 0;
    if (opt.check_lookups) {
        try {
            std::function<void(const Source &, int)> ws = [&](const Source &s, int d) { c.pool_sources.push_back(s); if (d < 8) for (auto &k : s.sources()) ws(k, d + 1); };
            std::function<void(const Section &, int)> wsec = [&](const Section &s, int d) { c.pool_sections.push_back(s); for (auto &p : s.properties()) c.pool_props.push_back(p); if (d < 8) for (auto &k : s.sections()) wsec(k, d + 1); };
            for (auto &blk : b.blocks()) {
                for (auto &x : blk.dataArrays()) c.pool_arrays.push_back(x);
                for (auto &x : blk.dataFrames()) c.pool_frames.push_back(x);
                for (auto &x : blk.tags()) c.pool_tags.push_back(x);
                for (auto &x : blk.multiTags()) c.pool_mtags.push_back(x);
                for (auto &x : blk.groups()) c.pool_groups.push_back(x);
                for (auto &x : blk.sources()) ws(x, 1);
            }
            for (auto &x : b.sections()) wsec(x, 1);
        } catch (const std::exception &) {}
    }
    Node n("file", "");
    std::string where = "";
    FIELD(n, "id", b.id());
    FIELD(n, "created_at", std::to_string((long long) b.createdAt()));
    FIELD(n, "format", b.format());
    c.getters++;
    try { std::vector<int> v = b.version(); std::string s; for (int x : v) s += std::to_string(x) + "."; n.add("version", s); }
    catch (const std::exception &) { n.add("version", "<throws>"); }
    CONTAINER(Block, "blocks", blocks, blockCount, getBlock, hasBlock, obs_block);
    CONTAINER(Section, "sections", sections, sectionCount, getSection, hasSection, obs_section0);
    if (getters) *getters += c.getters;
    return n;
}

} // namespace sim
