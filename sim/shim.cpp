// Link-time interposition of the libc calls through which nix / libhdf5 / boost meet
// the disk and the clock.  The kernel is used as a passive byte store; every call on a
// file below the simulation directory is logged, hashed and may be failed on purpose.
#include "sim.hpp"

#include <cerrno>
#include <cstdarg>
#include <cstring>
#include <fcntl.h>
#include <sys/stat.h>
#include <sys/syscall.h>
#include <sys/time.h>
#include <sys/file.h>
#include <time.h>
#include <unistd.h>
#include <random>
#include <sys/mman.h>

namespace {

const int MAXFD = 4096;
const int MAXPATH = 64;

struct PathInfo {
    std::string path;
    int open_fds;
    uint64_t write_calls;
    uint64_t any_calls;
    int last_flags;
    int write_opens;
};

struct FdInfo { bool sim; int pidx; };

FdInfo g_fd[MAXFD];
PathInfo *g_paths[MAXPATH];
int g_npaths = 0;
std::string *g_dir = nullptr;
sim::Hash *g_hash = nullptr;
sim::DiskCounters g_cnt;

bool g_clock_on = false;
int64_t g_now = 0;
uint64_t g_clock_reads = 0;

sim::FaultKind g_fault_kind = sim::F_NONE;
int g_fault_countdown = -1;
bool g_fault_fired = false;
bool g_fault_sticky = false;   // a disk that stays full / broken: every write-class call after the first failing one fails too

uint64_t g_perturb_state = 0;
int g_perturb_pm = 0;

uint64_t g_entropy_state = 0x1234;
uint64_t g_entropy_draws = 0;
bool g_entropy_on = false;     // entropy_seed() switches the simulated entropy source on
bool g_pid_on = false;
int g_sim_pid = 0;

inline long rsys(long n, long a = 0, long b = 0, long c = 0, long d = 0) {
    return syscall(n, a, b, c, d);
}

// one file has many names: relative to the working directory, with redundant separators and "." components, through a symbolic link
static std::string norm_path(const char *p) {
    std::string s;
    if (p[0] != '/') { char cwd[1024]; long n = rsys(SYS_getcwd, (long) cwd, (long) sizeof cwd); if (n > 0) { s = cwd; s += '/'; } }
    s += p;
    std::string o;
    for (size_t i = 0; i < s.size(); i++) {
        if (s[i] == '/' && !o.empty() && o[o.size() - 1] == '/') continue;                                  // "//"
        if (s[i] == '.' && !o.empty() && o[o.size() - 1] == '/' && (i + 1 == s.size() || s[i + 1] == '/')) { i++; continue; }   // "/./"
        o += s[i];
    }
    return o;
}

bool is_sim_path(const char *p) {
    if (!g_dir || !p) return false;
    size_t n = g_dir->size();
    if (n == 0) return false;
    if (strncmp(p, g_dir->c_str(), n) == 0 && !strstr(p, "//") && !strstr(p, "/./")) return true;
    if (p[0] == '/' && strncmp(p, g_dir->c_str(), n < 8 ? n : 8) != 0) return false;      // cheap exit for the usual foreign path
    return strncmp(norm_path(p).c_str(), g_dir->c_str(), n) == 0;
}

int path_index(const char *p00, bool create) {
    std::string np = norm_path(p00);
    const char *p0 = np.c_str();
    // a symbolic link inside the simulation directory stands for its target: both names are one file
    char target[512];
    const char *p = p0;
    long n = rsys(SYS_readlink, (long) p0, (long) target, (long) sizeof(target) - 1);
    if (n > 0) { target[n] = 0; p = target; }
    for (int i = 0; i < g_npaths; i++)
        if (g_paths[i]->path == p) return i;
    if (!create || g_npaths >= MAXPATH) return -1;
    PathInfo *pi = new PathInfo();
    pi->path = p; pi->open_fds = 0; pi->write_calls = 0; pi->any_calls = 0;
    pi->last_flags = -1; pi->write_opens = 0;
    g_paths[g_npaths] = pi;
    return g_npaths++;
}

inline void ev(uint64_t kind, uint64_t a, uint64_t b, uint64_t c) {
    if (!g_hash) return;
    g_hash->u64(kind); g_hash->u64(a); g_hash->u64(b); g_hash->u64(c);
}

inline bool perturb() {
    if (g_perturb_pm <= 0) return false;
    uint64_t r = sim::splitmix64(g_perturb_state);
    return (int) (r % 1000) < g_perturb_pm;
}

// returns F_NONE or the fault to apply to this write-class call
sim::FaultKind take_fault() {
    if (g_fault_kind != sim::F_NONE && g_fault_fired && g_fault_sticky && (g_fault_kind == sim::F_EIO || g_fault_kind == sim::F_ENOSPC)) return g_fault_kind;
    if (g_fault_kind == sim::F_NONE || g_fault_fired) return sim::F_NONE;
    if (g_fault_countdown > 0) { g_fault_countdown--; return sim::F_NONE; }
    g_fault_fired = true;
    g_cnt.faults_fired[g_fault_kind]++;
    return g_fault_kind;
}

} // namespace

namespace sim {

uint64_t hash_bytes(const void *p, size_t n) { Hash h; h.bytes(p, n); return h.h; }

void clock_enable(bool on) { g_clock_on = on; }
void clock_set(int64_t sec) { g_now = sec; }
int64_t clock_now() { return g_now; }
uint64_t clock_reads() { return g_clock_reads; }
double wall_now() {
    struct timespec ts;
    rsys(SYS_clock_gettime, CLOCK_MONOTONIC, (long) &ts);
    return (double) ts.tv_sec + ts.tv_nsec * 1e-9;
}

void disk_set_dir(const std::string &dir) {
    if (!g_dir) g_dir = new std::string();
    *g_dir = dir;
    if (!g_hash) g_hash = new Hash();
}
const std::string &disk_dir() { static std::string empty; return g_dir ? *g_dir : empty; }
uint64_t disk_event_hash() { return g_hash ? g_hash->h : 0; }
void disk_reset_hash() { if (g_hash) *g_hash = Hash(); }
DiskCounters &disk_counters() { return g_cnt; }

int disk_open_fds(const std::string &p) { int i = path_index(p.c_str(), false); return i < 0 ? 0 : g_paths[i]->open_fds; }
uint64_t disk_write_calls(const std::string &p) { int i = path_index(p.c_str(), false); return i < 0 ? 0 : g_paths[i]->write_calls; }
uint64_t disk_any_calls(const std::string &p) { int i = path_index(p.c_str(), false); return i < 0 ? 0 : g_paths[i]->any_calls; }
int disk_last_open_flags(const std::string &p) { int i = path_index(p.c_str(), false); return i < 0 ? -1 : g_paths[i]->last_flags; }
int disk_write_opens(const std::string &p) { int i = path_index(p.c_str(), false); return i < 0 ? 0 : g_paths[i]->write_opens; }
void disk_forget(const std::string &p) {
    int i = path_index(p.c_str(), false);
    if (i < 0) return;
    g_paths[i]->write_calls = 0; g_paths[i]->any_calls = 0; g_paths[i]->last_flags = -1; g_paths[i]->write_opens = 0;
}

void disk_arm_fault(FaultKind kind, int nth, bool sticky) {
    g_fault_kind = kind; g_fault_countdown = nth; g_fault_fired = false; g_fault_sticky = sticky;
    g_cnt.faults_armed++;
}
bool disk_disarm_fault() {
    bool f = g_fault_fired;
    g_fault_kind = F_NONE; g_fault_countdown = -1; g_fault_fired = false; g_fault_sticky = false;
    return f;
}
void disk_set_perturb(uint64_t seed, int per_mille) { g_perturb_state = seed; g_perturb_pm = per_mille; }

bool disk_read_all(const std::string &path, std::string &out) {
    long fd = rsys(SYS_openat, AT_FDCWD, (long) path.c_str(), O_RDONLY);
    if (fd < 0) return false;
    out.clear();
    char buf[65536];
    for (;;) {
        long n = rsys(SYS_read, fd, (long) buf, sizeof(buf));
        if (n < 0) { if (errno == EINTR) continue; rsys(SYS_close, fd); return false; }
        if (n == 0) break;
        out.append(buf, (size_t) n);
    }
    rsys(SYS_close, fd);
    return true;
}
bool disk_write_all(const std::string &path, const std::string &data) {
    long fd = rsys(SYS_openat, AT_FDCWD, (long) path.c_str(), O_WRONLY | O_CREAT | O_TRUNC, 0644);
    if (fd < 0) return false;
    size_t off = 0;
    while (off < data.size()) {
        long n = rsys(SYS_write, fd, (long) (data.data() + off), (long) (data.size() - off));
        if (n < 0) { if (errno == EINTR) continue; rsys(SYS_close, fd); return false; }
        off += (size_t) n;
    }
    rsys(SYS_close, fd);
    return true;
}
bool disk_copy(const std::string &from, const std::string &to) {
    std::string d;
    if (!disk_read_all(from, d)) return false;
    // a snapshot is always a new inode
    rsys(SYS_unlink, (long) to.c_str());
    return disk_write_all(to, d);
}
void disk_remove(const std::string &path) { rsys(SYS_unlink, (long) path.c_str()); }
bool disk_exists(const std::string &path) { return rsys(SYS_access, (long) path.c_str(), F_OK) == 0; }

void entropy_seed(uint64_t seed) { g_entropy_state = seed; g_entropy_draws = 0; g_entropy_on = true; }
void pid_set(int pid) { g_sim_pid = pid; g_pid_on = pid != 0; }
uint64_t entropy_draws() { return g_entropy_draws; }

} // namespace sim

// ------------------------------------------------------------------ entropy hook target
extern "C" unsigned nix_verif_entropy(void) {
    g_entropy_draws++;
    return (unsigned) (sim::splitmix64(g_entropy_state) >> 16);
}

// ------------------------------------------------------------------ entropy seam without any hook in /repo:
// std::random_device's out-of-line members (exported by libstdc++.so) are defined here, so every std::random_device that the
// library's objects construct - whatever token they pass - draws from the simulated process's entropy stream
static void entropy_bytes(void *buf, size_t n) {
    unsigned char *p = (unsigned char *) buf;
    while (n) { uint64_t v = sim::splitmix64(g_entropy_state); g_entropy_draws++; size_t k = n < 8 ? n : 8; memcpy(p, &v, k); p += k; n -= k; }
}
void std::random_device::_M_init(const std::string &) { }
void std::random_device::_M_fini() { }
std::random_device::result_type std::random_device::_M_getval() {
    // before a run has seeded its stream (static initialisers of the library, the zygote) the source is a fixed stream as well: entropy drawn
    // at load time is then the same in every zygote, so a generator that is seeded when the library is loaded - and inherited by every
    // process forked afterwards - behaves the same way in every execution of a seed
    return nix_verif_entropy();
}
double std::random_device::_M_getentropy() const noexcept { return 32.0; }

extern "C" ssize_t getrandom(void *buf, size_t n, unsigned int flags) {
    (void) flags;
    entropy_bytes(buf, n);
    return (ssize_t) n;
}
extern "C" int getentropy(void *buf, size_t n) {
    if (n > 256) { errno = EIO; return -1; }
    entropy_bytes(buf, n);
    return 0;
}
// a process that asks for its pid gets the simulated one (two simulated processes may share it: different machines, pid reuse)
extern "C" pid_t getpid(void) {
    if (g_pid_on) return (pid_t) g_sim_pid;
    return (pid_t) rsys(SYS_getpid);
}

// ------------------------------------------------------------------ clock
extern "C" time_t time(time_t *t) {
    if (!g_clock_on) {
        struct timespec ts;
        rsys(SYS_clock_gettime, CLOCK_REALTIME, (long) &ts);
        if (t) *t = ts.tv_sec;
        return ts.tv_sec;
    }
    g_clock_reads++;
    if (t) *t = (time_t) g_now;
    return (time_t) g_now;
}

extern "C" int gettimeofday(struct timeval *tv, void *tz) {
    if (!g_clock_on) return (int) rsys(SYS_gettimeofday, (long) tv, (long) tz);
    g_clock_reads++;
    if (tv) { tv->tv_sec = (time_t) g_now; tv->tv_usec = 0; }
    return 0;
}

extern "C" int clock_gettime(clockid_t id, struct timespec *ts) {
    if (!g_clock_on) return (int) rsys(SYS_clock_gettime, (long) id, (long) ts);
    g_clock_reads++;
    if (ts) { ts->tv_sec = (time_t) g_now; ts->tv_nsec = 0; }
    return 0;
}

// ------------------------------------------------------------------ disk
extern "C" int open(const char *path, int flags, ...) {
    mode_t mode = 0;
    if (flags & (O_CREAT | O_TMPFILE)) {
        va_list ap; va_start(ap, flags); mode = (mode_t) va_arg(ap, int); va_end(ap);
    }
    if (path && (!strcmp(path, "/dev/urandom") || !strcmp(path, "/dev/random"))) {
        long mfd = rsys(SYS_memfd_create, (long) "simulated-entropy", 0);
        if (mfd >= 0) {
            unsigned char blk[4096];
            for (int i = 0; i < 16; i++) { entropy_bytes(blk, sizeof blk); if (rsys(SYS_write, mfd, (long) blk, sizeof blk) < 0) break; }
            rsys(SYS_lseek, mfd, 0, SEEK_SET);
            if (mfd < MAXFD) g_fd[mfd].sim = false;
            return (int) mfd;
        }
    }
    long fd = rsys(SYS_openat, AT_FDCWD, (long) path, flags, mode);
    if (fd >= 0 && fd < MAXFD) {
        g_fd[fd].sim = false;
        if (is_sim_path(path)) {
            int pi = path_index(path, true);
            if (pi >= 0) {
                g_fd[fd].sim = true; g_fd[fd].pidx = pi;
                PathInfo *p = g_paths[pi];
                p->open_fds++; p->any_calls++; p->last_flags = flags;
                bool w = (flags & O_ACCMODE) != O_RDONLY || (flags & (O_CREAT | O_TRUNC));
                if (w) { p->write_opens++; g_cnt.opens_write++; }
                g_cnt.opens++;
                ev(1, (uint64_t) pi, (uint64_t) (flags & (O_ACCMODE | O_CREAT | O_TRUNC | O_EXCL)), 0);
            }
        }
    } else if (fd < 0 && is_sim_path(path)) {
        int pi = path_index(path, true);
        if (pi >= 0) g_paths[pi]->any_calls++;
        ev(2, (uint64_t) errno, 0, 0);
    }
    return (int) fd;
}

extern "C" int open64(const char *path, int flags, ...) {
    mode_t mode = 0;
    if (flags & (O_CREAT | O_TMPFILE)) {
        va_list ap; va_start(ap, flags); mode = (mode_t) va_arg(ap, int); va_end(ap);
    }
    return open(path, flags, mode);
}

extern "C" int close(int fd) {
    if (fd >= 0 && fd < MAXFD && g_fd[fd].sim) {
        PathInfo *p = g_paths[g_fd[fd].pidx];
        p->open_fds--; p->any_calls++;
        g_cnt.closes++;
        ev(3, (uint64_t) g_fd[fd].pidx, 0, 0);
        g_fd[fd].sim = false;
    }
    return (int) rsys(SYS_close, fd);
}

extern "C" ssize_t pread(int fd, void *buf, size_t n, off_t off) {
    bool s = fd >= 0 && fd < MAXFD && g_fd[fd].sim;
    if (s) {
        g_paths[g_fd[fd].pidx]->any_calls++;
        g_cnt.preads++;
        ev(4, (uint64_t) g_fd[fd].pidx, (uint64_t) off, (uint64_t) n);
        if (n > 1 && perturb()) {
            g_cnt.perturb_fired++;
            if (n & 1) { errno = EINTR; return -1; }
            n = n / 2;
        }
    }
    return (ssize_t) rsys(SYS_pread64, fd, (long) buf, (long) n, (long) off);
}
extern "C" ssize_t pread64(int fd, void *buf, size_t n, off_t off) { return pread(fd, buf, n, off); }

extern "C" ssize_t pwrite(int fd, const void *buf, size_t n, off_t off) {
    bool s = fd >= 0 && fd < MAXFD && g_fd[fd].sim;
    if (s) {
        PathInfo *p = g_paths[g_fd[fd].pidx];
        p->any_calls++; p->write_calls++;
        g_cnt.pwrites++;
        sim::FaultKind f = take_fault();
        ev(5, (uint64_t) g_fd[fd].pidx, (uint64_t) off, (uint64_t) n);
        ev(6, sim::hash_bytes(buf, n), (uint64_t) f, 0);
        if (f == sim::F_EIO) { errno = EIO; return -1; }
        if (f == sim::F_ENOSPC) { errno = ENOSPC; return -1; }
        if (f == sim::F_EINTR) { errno = EINTR; return -1; }
        if (f == sim::F_SHORT && n > 1) n = n / 2;
        if (f == sim::F_NONE && n > 1 && perturb()) {
            g_cnt.perturb_fired++;
            if (n & 1) { errno = EINTR; return -1; }
            n = n / 2;
        }
        g_cnt.bytes_written += n;
    }
    return (ssize_t) rsys(SYS_pwrite64, fd, (long) buf, (long) n, (long) off);
}
extern "C" ssize_t pwrite64(int fd, const void *buf, size_t n, off_t off) { return pwrite(fd, buf, n, off); }

extern "C" ssize_t read(int fd, void *buf, size_t n) {
    if (fd >= 0 && fd < MAXFD && g_fd[fd].sim) {
        g_paths[g_fd[fd].pidx]->any_calls++;
        ev(7, (uint64_t) g_fd[fd].pidx, (uint64_t) n, 0);
    }
    return (ssize_t) rsys(SYS_read, fd, (long) buf, (long) n);
}

extern "C" ssize_t write(int fd, const void *buf, size_t n) {
    if (fd >= 0 && fd < MAXFD && g_fd[fd].sim) {
        PathInfo *p = g_paths[g_fd[fd].pidx];
        p->any_calls++; p->write_calls++;
        g_cnt.pwrites++;
        ev(8, (uint64_t) g_fd[fd].pidx, (uint64_t) n, sim::hash_bytes(buf, n));
    }
    return (ssize_t) rsys(SYS_write, fd, (long) buf, (long) n);
}

extern "C" off_t lseek(int fd, off_t off, int whence) {
    if (fd >= 0 && fd < MAXFD && g_fd[fd].sim) g_paths[g_fd[fd].pidx]->any_calls++;
    return (off_t) rsys(SYS_lseek, fd, (long) off, whence);
}
extern "C" off_t lseek64(int fd, off_t off, int whence) { return lseek(fd, off, whence); }

extern "C" int ftruncate(int fd, off_t len) {
    if (fd >= 0 && fd < MAXFD && g_fd[fd].sim) {
        PathInfo *p = g_paths[g_fd[fd].pidx];
        p->any_calls++; p->write_calls++;
        g_cnt.ftruncates++;
        sim::FaultKind f = take_fault();
        ev(9, (uint64_t) g_fd[fd].pidx, (uint64_t) len, (uint64_t) f);
        if (f == sim::F_EIO) { errno = EIO; return -1; }
        if (f == sim::F_ENOSPC) { errno = ENOSPC; return -1; }
        if (f == sim::F_EINTR) { errno = EINTR; return -1; }
    }
    return (int) rsys(SYS_ftruncate, fd, (long) len);
}
extern "C" int ftruncate64(int fd, off_t len) { return ftruncate(fd, len); }

extern "C" int fstat(int fd, struct stat *st) {
    if (fd >= 0 && fd < MAXFD && g_fd[fd].sim) g_paths[g_fd[fd].pidx]->any_calls++;
    return (int) rsys(SYS_fstat, fd, (long) st);
}
extern "C" int fstat64(int fd, struct stat64 *st) { return fstat(fd, (struct stat *) st); }

extern "C" int flock(int fd, int op) {
    if (fd >= 0 && fd < MAXFD && g_fd[fd].sim) {
        g_paths[g_fd[fd].pidx]->any_calls++;
        g_cnt.flocks++;
        ev(10, (uint64_t) g_fd[fd].pidx, (uint64_t) op, 0);
    }
    return (int) rsys(SYS_flock, fd, op);
}

extern "C" int unlink(const char *path) {
    if (is_sim_path(path)) {
        int pi = path_index(path, true);
        if (pi >= 0) { g_paths[pi]->any_calls++; g_paths[pi]->write_calls++; }
        g_cnt.unlinks++;
        ev(11, (uint64_t) pi, 0, 0);
    }
    return (int) rsys(SYS_unlink, (long) path);
}
