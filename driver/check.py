#!/usr/bin/env python3
"""Driver for nixsim: build, worker pool, aggregation, minimisation, determinism gate,
known-finding matching, evidence.  Standard library only."""
import fcntl, hashlib, json, os, shutil, subprocess, sys, tempfile, threading, time
from concurrent.futures import ThreadPoolExecutor

VERIF = os.path.dirname(os.path.dirname(os.path.abspath(__file__)))
REPO = os.environ.get("NIXSIM_REPO", "/repo")
SAN = os.environ.get("SAN", "asan")
BUILD_ROOT = os.environ.get("NIXSIM_BUILD", os.path.join(VERIF, "build"))
OUT_ROOT = os.environ.get("NIXSIM_OUT", VERIF)      # evidence/ and replays/ go here (scratch runs against seeded changes use another place)
BIN = os.path.join(BUILD_ROOT, SAN, "nixsim")
NCPU = os.cpu_count() or 4

PROP_LANE = {"C01": "array", "C02": "tree", "C03": "names", "C04": "delete", "C08": "reject", "C09": "modes", "C10": "version",
             "C11": "durable", "C12": "ids", "C13": "dims", "C14": "props", "C15": "frame", "C16": "abuse"}

# runs per tier (fixed counts make a check a pure function of VERIF_SEED); wall caps are safety nets
BUDGET = {
    "quick":    {"runs": 2400, "cap_s": 240, "workers": min(14, NCPU)},
    "thorough": {"runs": 60000, "cap_s": 3000, "workers": min(15, NCPU)},
}
# heavier lanes (every observation walks a linked structure) get fewer, richer runs
LANE_SCALE = {"modes": 0.3, "version": 0.03, "ids": 0.4, "xkill": 0.15, "idhist": 0.6, "reject": 0.4, "names": 0.4, "delete": 0.5, "tree": 0.8, "durable": 0.8, "frame": 0.6}
EXTRA_LANES = {"C11": ["xkill"], "C12": ["idhist"]}

LEVELS = {"C10": "fault_enumeration"}

COMPONENTS_REAL = ["nix front-end (src/, include/) from /repo's working tree", "nix HDF5 backend (backend/hdf5) from /repo's working tree",
                   "libhdf5 1.10.8 incl. its sec2 file driver and metadata cache", "boost (filesystem, regex, date_time, uuid)", "libstdc++",
                   "kernel tmpfs as passive byte store"]
COMPONENTS_STUB = ["wall clock (time/gettimeofday/clock_gettime interposed: simulated clock)", "entropy (std::random_device, getrandom, getentropy, /dev/urandom interposed at link time: one seeded stream per simulated process) and getpid (simulated pid, often shared between simulated processes)",
                   "disk system calls (open/pread/pwrite/ftruncate/flock/close interposed: logged, hashed, failed on demand, snapshotted)",
                   "process kill = snapshot of the file bytes at the kill instant into a new inode (cross-checked against real SIGKILL of forked writers in the xkill lane, which is part of every C11 check)",
                   "HDF5 tuning knobs, no format change: file-access list (chunk cache, sieve buffer, size of the metadata cache) via --wrap=H5Fopen,H5Fcreate; type-conversion buffer of dataset transfers via --wrap=H5Dread,H5Dwrite"]


def log(*a):
    print(*a, file=sys.stderr, flush=True)


def build():
    os.makedirs(BUILD_ROOT, exist_ok=True)
    lock = open(os.path.join(BUILD_ROOT, ".lock"), "w")
    fcntl.flock(lock, fcntl.LOCK_EX)
    try:
        t0 = time.time()
        r = subprocess.run(["make", "-C", VERIF, "-j", str(NCPU), "SAN=" + SAN, "REPO=" + REPO, "BUILD=" + BUILD_ROOT] + (["SIM=" + os.environ["NIXSIM_SIM"]] if os.environ.get("NIXSIM_SIM") else []), stdout=subprocess.PIPE, stderr=subprocess.STDOUT, text=True)
        if r.returncode != 0:
            sys.stdout.write(r.stdout[-6000:])
            log("BUILD FAILED: /repo's working tree does not compile with the harness")
            sys.exit(2)
        return time.time() - t0
    finally:
        fcntl.flock(lock, fcntl.LOCK_UN)
        lock.close()


def run_workers(lane, base, tier, n, workers, cap_s, extra_env=None, order=None):
    """returns dict idx -> record"""
    tiern = 1 if tier == "thorough" else 0
    procs = []
    res = {}
    lock = threading.Lock()
    env = dict(os.environ)
    if extra_env:
        env.update(extra_env)

    def reader(p):
        for line in p.stdout:
            line = line.strip()
            if not line.startswith("{"):
                continue
            try:
                rec = json.loads(line)
            except ValueError:
                continue
            with lock:
                res[rec["idx"]] = rec

    threads = []
    for k in range(workers):
        p = subprocess.Popen([BIN, "worker", lane, str(base), str(tiern), str(k), str(n), str(workers)], stdout=subprocess.PIPE, stderr=subprocess.DEVNULL, text=True, env=env)
        procs.append(p)
        t = threading.Thread(target=reader, args=(p,), daemon=True)
        t.start()
        threads.append(t)
    t0 = time.time()
    capped = False
    while any(p.poll() is None for p in procs):
        if time.time() - t0 > cap_s:
            capped = True
            for p in procs:
                if p.poll() is None:
                    p.kill()
            break
        time.sleep(0.2)
    for t in threads:
        t.join(timeout=10)
    # clean up scratch directories of killed workers
    for p in procs:
        d = "/dev/shm/nixsim-w-%d" % p.pid
        shutil.rmtree(d, ignore_errors=True)
        try:
            os.unlink(d + ".stderr")
        except OSError:
            pass
    return res, capped


def get_plan(lane, base, tier, idx):
    tiern = 1 if tier == "thorough" else 0
    out = subprocess.run([BIN, "plan", lane, str(base), str(tiern), str(idx)], stdout=subprocess.PIPE, text=True, check=True).stdout
    lines = [l for l in out.split("\n") if l.strip()]
    return lines[0], lines[1:]


def exec_plan(swarm, ops, timeout=300, alarm=None):
    fd, path = tempfile.mkstemp(prefix="nixsim-plan-", suffix=".txt", dir="/dev/shm")
    with os.fdopen(fd, "w") as f:
        f.write(swarm + "\n" + "\n".join(ops) + "\n")
    try:
        env = dict(os.environ)
        if alarm:
            env["NIXSIM_ALARM"] = str(alarm)
        r = subprocess.run([BIN, "exec", path], stdout=subprocess.PIPE, stderr=subprocess.DEVNULL, text=True, timeout=timeout, env=env)
        for line in r.stdout.split("\n"):
            if line.startswith("{"):
                return json.loads(line)
        return {"verdict": "error", "detail": "no result from exec"}
    except subprocess.TimeoutExpired:
        return {"verdict": "error", "detail": "exec timeout"}
    finally:
        os.unlink(path)


def same_violation(rec, want):
    return rec.get("verdict") in ("viol", "foreign") and rec.get("oracle") == want["oracle"] and rec.get("op") == want["op"]


def minimise(swarm, ops, want, pool, budget_s=150):
    """ddmin over the op list, candidates evaluated in parallel; keeps (oracle, op kind) fixed"""
    tests = [0]
    t_end = time.time() + budget_s

    def fails(cand):
        tests[0] += 1
        return same_violation(exec_plan(swarm, cand), want)

    cur = list(ops)
    # drop everything after the failing op first
    rec = exec_plan(swarm, cur)
    if same_violation(rec, want) and 0 <= rec.get("op_index", -1) < len(cur) - 1:
        cand = cur[: rec["op_index"] + 1]
        if fails(cand):
            cur = cand
    n = 2
    while len(cur) >= 2 and time.time() < t_end:
        chunk = max(1, len(cur) // n)
        cands = []
        for i in range(0, len(cur), chunk):
            cands.append(cur[:i] + cur[i + chunk:])
        results = list(pool.map(fails, cands))
        hit = next((c for c, ok in zip(cands, results) if ok), None)
        if hit is not None:
            cur = hit
            n = max(n - 1, 2)
        else:
            if chunk == 1:
                break
            n = min(len(cur), n * 2)
    return cur, tests[0]


def load_known():
    path = os.path.join(VERIF, "known_findings.txt")
    out = []
    if os.path.exists(path):
        for line in open(path):
            line = line.strip()
            if line.startswith("open:"):
                d = json.loads(line[5:].strip())
                d["status"] = "open"
                out.append(d)
    return out


def match_known(known, prop, rec):
    for k in known:
        if k.get("status") != "open" or k.get("property") != prop:
            continue
        if k.get("oracle") != rec.get("oracle"):
            continue
        if k.get("op") and k.get("op") != rec.get("op"):
            continue
        ac = k.get("arg_class")
        if ac and ac not in rec.get("arg_class", ""):
            continue
        return k
    return None


def write_evidence(prop, tier, seed, level, coverage, wall, violations, assumptions):
    os.makedirs(os.path.join(OUT_ROOT, "evidence"), exist_ok=True)
    ev = {"property_id": prop, "tier": tier, "seed": seed, "level": level, "coverage": coverage, "assumptions": assumptions,
          "wall_s": round(wall, 2), "violations": violations}
    tmp = os.path.join(OUT_ROOT, "evidence", prop + ".json.tmp")
    with open(tmp, "w") as f:
        json.dump(ev, f, indent=1, sort_keys=True)
    os.replace(tmp, os.path.join(OUT_ROOT, "evidence", prop + ".json"))


NONTRIVIAL_KEYS = {
    "C01": ["array.write", "array.read"], "C02": ["restart.checked"], "C03": ["observe"], "C04": ["delete.checked"], "C08": ["rejected_calls"],
    "C09": ["ro_session.checked"], "C10": ["version.opens"], "C11": ["kill.checked", "close.kept_handles", "stale.closed_calls"], "C12": ["ids.new"], "C13": ["dims.set", "dims.append.sampled", "dims.append.range", "dims.append.set", "dims.append.alias", "dims.append.frame"],
    "C14": ["prop.assign"], "C15": ["frame.write_row", "frame.write_cell", "frame.write_col"], "C16": ["abuse.calls", "stale.calls"],
}
RULES = {
    "C01": "a run is non-trivial if it executed at least one array write and one model-checked read; distinct = distinct sequence of operation kinds (plan-shape hash)",
    "C02": "non-trivial = at least one close+reopen whose before/after documents were compared on a file with content; distinct = distinct plan-shape hash",
    "C03": "non-trivial = lookup-agreement predicates evaluated on non-empty containers; distinct = distinct plan-shape hash",
    "C04": "non-trivial = at least one successful delete whose before/after documents were compared with the transformer; distinct = distinct plan-shape hash",
    "C08": "non-trivial = at least one call on a ReadWrite file threw and before/after documents were compared; distinct = distinct plan-shape hash",
    "C09": "non-trivial = at least one ReadOnly session was closed and its bytes / write-syscalls / open flags were checked; distinct = distinct plan-shape hash",
    "C10": "every (triple, mode, Force) combination of the cube is one case; all are distinct",
    "C11": "non-trivial = a kill after flush was executed and the image compared, or handles outlived a close and were exercised; distinct = distinct plan-shape hash",
    "C12": "non-trivial = new ids were created and checked for well-formedness / uniqueness / stability; distinct = distinct plan-shape hash (ids lane: distinct (process, clock) schedules)",
    "C13": "non-trivial = at least one dimension descriptor was appended or modified and compared with the model; distinct = distinct plan-shape hash",
    "C14": "non-trivial = at least one value assignment was compared with the model; distinct = distinct plan-shape hash",
    "C15": "non-trivial = at least one row/cell/column write was compared with the model; distinct = distinct plan-shape hash",
    "C16": "non-trivial = out-of-contract calls or stale/deleted/closed-handle calls were executed under ASan+UBSan; distinct = distinct plan-shape hash",
}


def aggregate(prop, lane, records):
    cnt = {}
    shapes_nontrivial = set()
    states = set()
    triples = set()
    finals = set()
    verdicts = {}
    need = NONTRIVIAL_KEYS.get(prop, [])
    for rec in records.values():
        verdicts[rec["verdict"]] = verdicts.get(rec["verdict"], 0) + 1
        c = rec.get("cnt", {})
        for k, v in c.items():
            cnt[k] = cnt.get(k, 0) + v
        if any(c.get(k, 0) > 0 for k in need):
            shapes_nontrivial.add(rec["shape"])
        states.update(rec.get("states", []))
        triples.update(rec.get("triples", []))
        finals.add(rec.get("final_state"))
    return cnt, shapes_nontrivial, states, triples, finals, verdicts


def check(prop, tier):
    t_start = time.time()
    if prop not in PROP_LANE:
        log("unknown or not-applicable property", prop)
        return 2
    lane = PROP_LANE[prop]
    seed = int(os.environ.get("VERIF_SEED", "1"))
    build_s = build()
    b = BUDGET[tier]
    n = int(os.environ.get("NIXSIM_RUNS", int(b["runs"] * LANE_SCALE.get(lane, 1.0))))
    n = max(n, 16)
    workers = int(os.environ.get("NIXSIM_WORKERS", b["workers"]))
    t0 = time.time()
    records, capped = run_workers(lane, seed, tier, n, workers, b["cap_s"])
    lane_of = {i: lane for i in records}
    for extra in EXTRA_LANES.get(prop, []):
        # further lanes serving the same property; their run indices are shifted so that records do not collide
        n2 = max(16, int(n * LANE_SCALE.get(extra, 1.0)))
        rec2, capped2 = run_workers(extra, seed, tier, n2, workers, b["cap_s"])
        capped = capped or capped2
        for i, rrec in rec2.items():
            rrec["lane_idx"] = i
            records[1000000 + i] = rrec
            lane_of[1000000 + i] = extra
        n += n2
    for i, rrec in records.items():
        rrec.setdefault("lane_idx", rrec["idx"])
        rrec["idx"] = i
    run_s = time.time() - t0
    # ---- runs that hit the per-run time limit: executed again, alone, with a far longer limit; only a plan that still does not
    # finish is a hang (wall-clock time is the one thing a seed does not determine, so it must never decide a verdict by itself)
    slow = 0
    rechecked = 0
    for i, r in sorted(records.items()):
        if r["verdict"] in ("viol", "foreign") and r.get("oracle", "").endswith(".crash") and r.get("detail", "").startswith("hang"):
            if rechecked >= 3 and slow == 0:
                break           # three out of three did not finish alone either: these are hangs, not slow runs
            if rechecked >= 8:
                break
            rechecked += 1
            sw, ops = get_plan(lane_of[i], seed, tier, r["lane_idx"])
            again = exec_plan(sw, ops, timeout=700, alarm=600)
            if not (again.get("oracle", "").endswith(".crash") and again.get("detail", "").startswith("hang")):
                slow += 1
                again["idx"] = i
                again["lane_idx"] = r["lane_idx"]
                again.setdefault("cnt", {})
                again.setdefault("shape", r.get("shape"))
                again.setdefault("nops", r.get("nops", 0))
                records[i] = again
    if rechecked and slow == rechecked:
        # every run that was looked at again finished: the machine is slow, not the library; the ones not looked at are not believed either
        for i, r in records.items():
            if r["verdict"] in ("viol", "foreign") and r.get("oracle", "").endswith(".crash") and r.get("detail", "").startswith("hang"):
                r["verdict"] = "slow"
    known = load_known()
    cnt, shapes, states, triples, finals, verdicts = aggregate(prop, lane, records)

    # ---- violations
    viols = [r for r in records.values() if r["verdict"] == "viol"]
    groups = {}
    for r in viols:
        key = (r["oracle"], r["op"], r.get("arg_class", ""))
        if key not in groups or (r["nops"], r["idx"]) < (groups[key]["nops"], groups[key]["idx"]):
            groups[key] = r
    reported = 0
    known_hit = {}
    nondet = False
    os.makedirs(os.path.join(OUT_ROOT, "replays"), exist_ok=True)
    pool = ThreadPoolExecutor(max_workers=NCPU)
    # known findings first (cheap), then at most a handful of new classes are minimised
    new_groups = []
    for key, r in sorted(groups.items(), key=lambda kv: (kv[1]["nops"], kv[1]["idx"])):
        k = match_known(known, prop, r)
        if k is not None:
            known_hit.setdefault(k["what"], []).append(r)
        else:
            new_groups.append(r)
    seen_min = set()
    replay_samples = []
    for r in new_groups[:4]:
        swarm, ops = get_plan(lane_of[r["idx"]], seed, tier, r["lane_idx"])
        # gate 1: the same seed reproduces with the same event hash
        again = exec_plan(swarm, ops)
        if not same_violation(again, r) or again.get("hash") != r.get("hash"):
            log("NONDETERMINISTIC: idx", r["idx"], "did not reproduce:", again.get("verdict"), again.get("oracle"), again.get("hash"), "vs", r.get("hash"))
            nondet = True
            continue
        mops, ntests = minimise(swarm, ops, r, pool)
        final = exec_plan(swarm, mops)
        final2 = exec_plan(swarm, mops)
        if not same_violation(final, r) or final.get("hash") != final2.get("hash"):
            log("NONDETERMINISTIC: minimised plan of idx", r["idx"], "does not replay")
            nondet = True
            continue
        k = match_known(known, prop, final)
        if k is not None:
            known_hit.setdefault(k["what"], []).append(final)
            continue
        sig = (final["oracle"], final["op"], final.get("arg_class", ""), len(mops))
        if sig in seen_min:
            continue
        seen_min.add(sig)
        name = "%s-%d-%d.json" % (prop, seed, r["idx"])
        path = os.path.join(OUT_ROOT, "replays", name)
        with open(path, "w") as f:
            json.dump({"property": prop, "lane": lane_of[r["idx"]], "base_seed": seed, "run": r["lane_idx"], "tier": tier, "swarm": swarm, "plan": mops,
                       "oracle": final["oracle"], "op": final["op"], "arg_class": final.get("arg_class", ""), "fail_at": final.get("op_index"),
                       "detail": final.get("detail", ""), "event_hash": final.get("hash"), "minimised_from": len(ops), "minimise_tests": ntests}, f, indent=1)
        print("VIOLATION property=%s replay=%s" % (prop, path))
        print("  oracle=%s op=%s arg_class=%s ops=%d (from %d) detail=%s" % (final["oracle"], final["op"], final.get("arg_class", ""), len(mops), len(ops), final.get("detail", "")[:300]))
        reported += 1
        replay_samples.append({"replay": name, "oracle": final["oracle"], "plan": mops})
    for what, recs in sorted(known_hit.items()):
        print("KNOWN-FINDING: property=%s %s (seen in %d run(s))" % (prop, what, len(recs)))
    # runs in which an oracle of *another* property fired (they go on, and do not count for this check): listed, so that they are not lost
    foreign = {}
    for r in records.values():
        if r["verdict"] == "foreign":
            k = "%s|%s|%s" % (r.get("oracle", ""), r.get("op", ""), r.get("arg_class", ""))
            foreign.setdefault(k, []).append(r["idx"])
    for k, idxs in sorted(foreign.items()):
        print("note: oracle of another property fired in %d run(s) of this lane (not counted here; run that property's check): %s, first at run %d" % (len(idxs), k, min(idxs)))

    # ---- evidence
    wall = time.time() - t_start
    done = len(records)
    samples = []
    for idx in sorted(records)[:3] + [i for i in sorted(records) if i >= 1000000][:2]:
        sw, ops = get_plan(lane_of[idx], seed, tier, records[idx]["lane_idx"])
        samples.append({"run": idx, "verdict": records[idx]["verdict"], "swarm": sw, "plan": ops})
    samples += replay_samples
    faults = {}
    for k, v in cnt.items():
        if k.startswith("fault.") or k.startswith("kill") or k.startswith("restart.") or k.startswith("clock.") or k.startswith("stale.") or k.startswith("drop") or k == "disk.perturb_fired" or k.startswith("ro_session") or k.startswith("header.") or k.startswith("version.") or k.startswith("xproc.") or k.startswith("twin.") or k.startswith("misdirected.") or k.startswith("crowd.") or k.startswith("h5knob.") or k in ("ops_from_second_thread", "open.via_symlink", "names.link_path_fitted", "names.fitted_to_path_length", "delete.misdirected_checked", "names.reused_name_of_deleted"):
            faults[k] = v
    ops_by_kind = {k[3:]: v for k, v in cnt.items() if k.startswith("op.")}
    probes = PROBES.get(prop, [])
    zero = [p for p in probes if cnt.get(p, 0) == 0]
    coverage = {
        "evaluations": done, "distinct_nontrivial": len(shapes), "rule": RULES.get(prop, ""), "samples": samples,
        "runs_requested": n, "capped_by_wall_clock": capped, "verdicts": verdicts, "violations_by_class": {"%s|%s|%s" % k: v["idx"] for k, v in groups.items()},
        "known_findings_confirmed": sorted(known_hit), "other_properties_oracles_fired": {k: len(v) for k, v in foreign.items()}, "ops_by_kind_and_outcome": ops_by_kind, "faults_and_schedule_events": faults,
        "counters": {k: v for k, v in cnt.items() if not k.startswith("op.")},
        "sim_seconds": cnt.get("sim_seconds", 0), "runs_per_hour": int(done / max(run_s, 1e-6) * 3600), "seeds_per_hour": int(done / max(run_s, 1e-6) * 3600),
        "distinct_states_lower_bound": len(states), "distinct_final_states": len(finals), "distinct_op_outcome_context_triples": len(triples),
        "runs_over_time_limit_reexecuted_alone": slow, "zero_probes": zero, "components_real": COMPONENTS_REAL, "components_stubbed": COMPONENTS_STUB,
        "build_s": round(build_s, 1), "run_s": round(run_s, 1), "workers": workers, "sanitizers": "gcc -fsanitize=address,undefined (-fno-sanitize=vptr), NDEBUG" if SAN == "asan" else SAN,
        "exhaustive": False,
    }
    if prop == "C10":
        runs_ok = max(1, done)
        coverage["files_built_from_random_histories"] = done
        coverage["evaluations"] = int(cnt.get("version.opens", 0))
        core = int(cnt.get("version.core_triples", 0) // runs_ok)
        cross_covered = 0
        for k in range(8):
            nf = cnt.get("version.cross_class_files.%d" % k, 0)
            if nf:
                cross_covered += int(cnt.get("version.cross_class_triples.%d" % k, 0) // nf)
        # distinct (triple, mode, Force) combinations over the whole batch: the core cube (same on every file) plus the residue classes of the cross that some file took
        coverage["distinct_nontrivial"] = 4 * (core + cross_covered)
        coverage["core_triples"] = core
        coverage["cross_triples_covered_by_this_batch"] = cross_covered
        coverage["version_triples_per_file"] = int(cnt.get("version.triples", 0) // runs_ok)
        coverage["order_law_pairs"] = int(cnt.get("version.order_pairs", 0))
        coverage["exhaustive"] = all(cnt.get("version.cross_class_files.%d" % k, 0) > 0 for k in range(8))   # core cube on every file, every class of the cross on some file
        coverage["cross_triples_total"] = int(cnt.get("version.cross_triples_total", 0) // runs_ok)
        coverage["cross_triples_per_file"] = int(cnt.get("version.cross_triples", 0) // runs_ok)
        coverage["rule"] = RULES["C10"] + ("; evaluations = open attempts over all files, distinct_nontrivial = distinct (triple, mode, Force) combinations over the batch. Every file enumerates the "
            "core cube {lib-2..lib+2, 9, INT_MAX}^3 completely (exhaustive=true refers to this cube) and one eighth (residue class of its seed) of the cross: one component from "
            "radix-boundary values (10^k, 2^8, 2^16 and their neighbours, library component +- radix, negatives, INT_MIN), the other two from the core axes; a batch of >= 8 files "
            "covers the whole cross")
    level = LEVELS.get(prop, "exploration")
    assumptions = ["libhdf5 1.10.8 behaves as documented", "tmpfs returns what was written", "a clean batch is evidence over the sampled histories, not proof",
                   "one forked process per run: a seed is one exactly repeatable execution (event hash gate on every reported violation)"]
    write_evidence(prop, tier, seed, level, coverage, wall, reported, assumptions)
    log("%s %s: %d runs (%s) in %.1fs (+%.1fs build), %d distinct non-trivial, verdicts %s, zero probes %s" % (prop, tier, done, "capped" if capped else "complete", run_s, build_s, len(shapes), verdicts, zero))
    if nondet:
        return 2
    if reported:
        return 1
    if zero and not os.environ.get("NIXSIM_ALLOW_ZERO_PROBES"):
        log("required probes at zero:", zero)
    return 0


PROBES = {
    "C01": ["array.write", "array.read", "array.read_converted", "array.read_calibrated", "array.append", "array.resize", "array.write_whole", "restart.checked", "array.create.deflate"],
    "C02": ["restart.checked", "restart.snapshot", "restart.same_path", "open.ro", "open.rw", "clock.backward", "clock.forward", "restart.other_process",
            "twin.unobserved_history_compared", "ops_from_second_thread", "open.via_symlink"],
    "C03": ["observe", "restart.checked", "live_handles.member_lookups", "replace_member.kind0", "names.reused_name_of_deleted"],
    "C04": ["delete.checked", "delete.stale_handles_checked", "names.link_path_fitted", "delete.misdirected_checked", "misdirected.namesake"],
    "C08": ["rejected_calls"],
    "C09": ["ro_session.checked", "ro.catalogue_sessions", "ro.mutators_effective_in_rw", "open.via_symlink"],
    "C11": ["kill.checked", "flush.ok", "close.kept_handles", "stale.closed_calls", "fault.flush.eio.fired", "fault.flush.enospc.fired", "kill.real_sigkill", "kill.reader_opens_rw",
            "fault.close.eio.fired", "fault.close.enospc.fired", "fault.close.persistent", "fault.close.reported_by_exception", "h5knob.small_metadata_cache_opens"],
    "C12": ["ids.new", "xproc.processes", "xproc.steps_in_a_second_shared_with_another_process", "clock.same_second", "clock.backward"],
    "C13": ["dims.append.sampled", "dims.append.range", "dims.append.set", "dims.append.alias", "dims.append.frame", "dims.set", "dims.delete_all", "dims.alias_ticks_write", "restart.checked", "live_handles.dimension_checked"],
    "C14": ["prop.assign", "prop.clear", "restart.checked"],
    "C15": ["frame.write_row", "frame.write_cell", "frame.write_col", "frame.read_row", "frame.read_cell", "frame.read_col", "frame.shrink", "frame.grow", "restart.checked"],
    "C16": ["abuse.calls", "stale.calls", "drop"],
}


def replay(path):
    build()
    d = json.load(open(path))
    rec = exec_plan(d["swarm"], d["plan"])
    print(json.dumps({k: rec.get(k) for k in ("verdict", "oracle", "op", "op_index", "arg_class", "detail", "hash")}, indent=1))
    if rec.get("verdict") in ("viol", "foreign") and rec.get("oracle") == d.get("oracle"):
        print("VIOLATION property=%s replay=%s" % (d["property"], path))
        return 1
    return 0


def selfcheck(nseeds):
    """determinism: every lane, N seeds, run twice at different worker counts / zygote states; per-seed hashes must agree"""
    build()
    bad = 0
    lanes = [l.split()[0] for l in subprocess.run([BIN, "lanes"], stdout=subprocess.PIPE, text=True).stdout.strip().split("\n")]
    seed = int(os.environ.get("VERIF_SEED", "1"))
    for lane in lanes:
        a, _ = run_workers(lane, seed, "quick", nseeds, min(14, NCPU), 600)
        b, _ = run_workers(lane, seed, "quick", nseeds, 5, 900, extra_env={"NIXSIM_DIRTY_ZYGOTE": "1"})
        diff = [i for i in a if i in b and (a[i]["hash"], a[i]["verdict"], a[i].get("oracle")) != (b[i]["hash"], b[i]["verdict"], b[i].get("oracle"))]
        missing = [i for i in range(nseeds) if i not in a or i not in b]
        log("selfcheck %-8s %d seeds x2: %d differ, %d missing" % (lane, nseeds, len(diff), len(missing)))
        if diff:
            log("  first differing seeds:", diff[:10])
        bad += len(diff) + len(missing)
    print("SELFCHECK", "FAILED" if bad else "OK")
    return 1 if bad else 0


def survey(lanes, n):
    """development aid: all violation classes (own and foreign) per lane"""
    build()
    seed = int(os.environ.get("VERIF_SEED", "1"))
    for lane in lanes:
        recs, _ = run_workers(lane, seed, "quick", n, min(15, NCPU), 900)
        groups = {}
        for r in recs.values():
            if r["verdict"] == "ok":
                continue
            key = (r["verdict"], r.get("oracle"), r.get("op"), r.get("arg_class"))
            g = groups.setdefault(key, [0, r])
            g[0] += 1
            if r["nops"] < g[1]["nops"]:
                g[1] = r
        print("== %s: %d runs, %d not ok" % (lane, len(recs), sum(g[0] for g in groups.values())))
        for key, (c, r) in sorted(groups.items(), key=lambda kv: -kv[1][0]):
            print("  %4d %s | idx %d op#%d | %s" % (c, " ".join(str(x) for x in key), r["idx"], r.get("op_index", -1), r.get("detail", "")[:260]))
    return 0


def main():
    a = sys.argv[1:]
    if not a:
        print("usage: check <Cxx> quick|thorough | replay <file> | selfcheck [n] | build")
        return 64
    if a[0] == "build":
        build()
        return 0
    if a[0] == "replay":
        return replay(a[1])
    if a[0] == "survey":
        return survey(a[2:] or list(dict.fromkeys(PROP_LANE.values())), int(a[1]))
    if a[0] == "selfcheck":
        return selfcheck(int(a[1]) if len(a) > 1 else 300)
    tier = a[1] if len(a) > 1 else os.environ.get("VERIF_TIER", "quick")
    return check(a[0], tier)


if __name__ == "__main__":
    sys.exit(main())
