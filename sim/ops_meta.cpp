// Metadata properties (C14) and data frames (C15): operations and models.
#include "engine.hpp"
#include <algorithm>
#include <cstring>
#include <cmath>
#include <limits>

using namespace nix;

namespace sim {

static const DataType kVarTypes[] = {DataType::Bool, DataType::Int32, DataType::UInt32, DataType::Int64, DataType::UInt64, DataType::Double, DataType::String};

static Variant rand_variant(Rng &r, DataType dt) {
    switch (dt) {
        case DataType::Bool: return Variant((bool) r.chance(1, 2));
        case DataType::Int32: { static const int32_t sp[] = {0, -1, 1, INT32_MAX, INT32_MIN, 42}; return Variant(r.chance(1, 3) ? sp[r.below(6)] : (int32_t) r.next()); }
        case DataType::UInt32: { static const uint32_t sp[] = {0, 1, UINT32_MAX, 42, 0x80000000u}; return Variant(r.chance(1, 3) ? sp[r.below(5)] : (uint32_t) r.next()); }
        case DataType::Int64: { static const int64_t sp[] = {0, -1, 1, INT64_MAX, INT64_MIN, 1LL << 53}; return Variant(r.chance(1, 3) ? sp[r.below(6)] : (int64_t) r.next()); }
        case DataType::UInt64: { static const uint64_t sp[] = {0, 1, UINT64_MAX, 1ULL << 63, 42}; return Variant(r.chance(1, 3) ? sp[r.below(5)] : (uint64_t) r.next()); }
        case DataType::Double: {
            static const double sp[] = {0.0, -0.0, 1.5, std::numeric_limits<double>::quiet_NaN(), std::numeric_limits<double>::infinity(), -std::numeric_limits<double>::infinity(),
                                        std::numeric_limits<double>::denorm_min(), std::numeric_limits<double>::max(), 0.1, 1e-300};
            if (r.chance(1, 2)) return Variant(sp[r.below(10)]);
            uint64_t bits = r.next(); double d; memcpy(&d, &bits, 8);
            if (d != d) d = 3.25;   // arbitrary NaN payloads are not part of the claim; the canonical quiet NaN above is
            return Variant(d);
        }
        default: {
            int k = r.range(0, 7);
            if (k == 0) return Variant(std::string(""));
            if (k == 1) return Variant(std::string((size_t) r.range(200, 3000), 'q'));
            if (k == 2) return Variant(std::string("gr\xc3\xbc\xc3\x9f \xe2\x82\xac"));
            return Variant(std::string("v") + std::to_string(r.below(1000)));
        }
    }
}

static std::vector<Variant> rand_values(Rng &r, DataType dt, int lo, int hi) {
    std::vector<Variant> v;
    // mostly a handful; every length up to hi now and then; and lengths next to powers of two (storage is extended in steps)
    int n;
    int k = r.range(0, 15);
    if (k < 8) n = r.range(lo, hi < 6 ? hi : 6);
    else if (k < 11) n = r.range(lo, hi);
    else if (k < 13) n = hi;
    else { n = (1 << r.range(3, 10)) + r.range(-1, 1); if (hi < 64) n = n % (hi + 1); if (n < lo) n = lo; }
    for (int i = 0; i < n; i++) v.push_back(rand_variant(r, dt));
    return v;
}

static DataType other_type(Rng &r, DataType dt) {
    for (;;) { DataType o = kVarTypes[r.below(7)]; if (o != dt) return o; }
}

int World::exec_meta(const Op &op) {
    const int *a = op.a;
    Rng r(op.sub);
    if (op.kind == OP_prop_create) {
        Section s = section_at(a[0]); if (!s) return 2;
        int form = ((unsigned) a[1]) % 3;
        DataType dt = kVarTypes[((unsigned) a[2]) % 7];
        int invalid = ((unsigned) a[3]) % 16;
        std::string name = resolve_name(op.s, "");
        if (a[5] == 1 && s.propertyCount()) name = s.getProperty((ndsize_t) 0).id();
        bool dup = s.hasProperty(name);
        bool badname = name.empty() || name.find('/') != std::string::npos;
        arg_class = std::string(dup ? "dup" : badname ? "bad-name" : "fresh") + ",form=" + std::to_string(form) + ",dtype=" + dtype_name(dt);
        Property p;
        PropModel m; m.dtype = dt;
        try {
            if (form == 0) {
                if (invalid == 1) { dt = DataType::Float; arg_class += ",unsupported-dtype"; }
                if (invalid == 2) { dt = DataType::Nothing; arg_class += ",unsupported-dtype"; }
                p = s.createProperty(name, dt);
                m.dtype = dt; m.specified = false;
            } else if (form == 1) {
                Variant v = rand_variant(r, dt);
                p = s.createProperty(name, v);
                m.specified = true; m.values.push_back(variant_str(v));
            } else {
                std::vector<Variant> v = rand_values(r, dt, 1, 64);
                if (invalid == 3) { v.clear(); arg_class += ",empty-vector"; }
                if (invalid == 4 && v.size() >= 1) { v.push_back(rand_variant(r, other_type(r, dt))); arg_class += ",mixed-types"; }
                p = s.createProperty(name, v);
                if (invalid == 4) { fail("C14.type-reject", "createProperty(name, values) accepted values of mixed types"); return 0; }
                m.specified = true; for (auto &x : v) m.values.push_back(variant_str(x));
            }
        } catch (const std::exception &) { return 1; }
        if (p && !(form == 0 && (invalid == 1 || invalid == 2))) prop[p.id()] = m;
        cnt.inc("prop.create.form" + std::to_string(form));
        return 0;
    }
    if (op.kind == OP_prop_delete) {
        Section s = section_at(a[0]); if (!s) return 2;
        Property p = prop_at(a[0], a[1]); if (!p) return 2;
        take_victim_handles(p.id()); last_deleted_name = p.name();
        { Kept k; k.kind = 8; k.property = p; k.id = p.id(); k.session = session; del_handles.push_back(k); }
        int how = ((unsigned) a[2]) % 3;
        arg_class = how == 0 ? "by-name" : how == 1 ? "by-id" : "by-handle";
        try { del_result = how == 0 ? s.deleteProperty(p.name()) : how == 1 ? s.deleteProperty(p.id()) : s.deleteProperty(p); return 0; }
        catch (const std::exception &) { return 1; }
    }
    Property p = prop_at(a[0], a[1]);
    if (!p) return 2;
    std::string id = p.id();
    auto it = prop.find(id);
    PropModel *m = it == prop.end() ? nullptr : &it->second;
    DataType dt = m ? m->dtype : p.dataType();
    arg_class = "dtype=" + dtype_name(dt);
    try {
        switch (op.kind) {
        case OP_prop_values: {
            int variant = ((unsigned) a[2]) % 10;
            std::vector<Variant> v;
            if (variant == 1) { v = rand_values(r, other_type(r, dt), 1, 8); arg_class += ",wrong-type"; }
            else if (variant == 2) { v = rand_values(r, dt, 1, 8); v.push_back(rand_variant(r, other_type(r, dt))); arg_class += ",mixed-types"; }
            else if (variant == 3) { arg_class += ",empty"; }
            else v = rand_values(r, dt, 1, 64);
            if (variant != 1 && variant != 2 && m) must_succeed = "C14.values";
            p.values(v);
            must_succeed.clear();
            if (variant == 1 || variant == 2) { fail("C14.type-reject", "Property::values accepted values whose type differs from the property's type"); return 0; }
            if (m) { m->specified = true; m->values.clear(); for (auto &x : v) m->values.push_back(variant_str(x)); }
            cnt.inc("prop.assign"); cnt.inc("prop.assign.len" + std::string(v.size() == 0 ? "0" : v.size() < 8 ? "<8" : ">=8"));
            return 0;
        }
        case OP_prop_delvalues: must_succeed = "C14.values"; p.deleteValues(); must_succeed.clear(); if (m) { m->specified = true; m->values.clear(); } cnt.inc("prop.clear"); return 0;
        case OP_prop_none: must_succeed = "C14.values"; p.values(nix::none); must_succeed.clear(); if (m) { m->specified = true; m->values.clear(); } cnt.inc("prop.clear"); return 0;
        case OP_prop_unit: {
            int variant = ((unsigned) a[2]) % 6;
            if (variant == 0) { p.unit(nix::none); if (m) m->has_unit = false; return 0; }
            // a Property accepts any unit string (blanks are dropped on the way in, so the pool has none)
            static const char *u[] = {"mV", "ms", "kHz", "uA", "s", "m/s", "\xc2\xb5V", "muS/cm", "mumol/l", "kg*m^2/s^2", "\xce\xa9", "\xc2\xb0""C", "%", "dB", "arb.u.", "spikes/s", "mV^2/Hz", "m", "1/mus"};
            std::string un = u[r.below(19)];
            p.unit(un); if (m) { m->has_unit = true; m->unit = un; }
            return 0;
        }
        case OP_prop_uncert: {
            if (((unsigned) a[2]) % 5 == 0) { p.uncertainty(nix::none); if (m) m->has_unc = false; return 0; }
            double d = (double) r.range(0, 1000) / 8.0;
            p.uncertainty(d); if (m) { m->has_unc = true; m->unc = d; }
            return 0;
        }
        case OP_prop_def: {
            int variant = ((unsigned) a[2]) % 6;
            if (variant == 0) { p.definition(nix::none); if (m) m->has_def = false; return 0; }
            std::string d = variant == 1 ? "" : "pdef" + std::to_string(r.below(50));
            if (variant == 1) arg_class += ",empty";
            p.definition(d); if (m) { m->has_def = true; m->def = d; }
            return 0;
        }
        default: return 2;
        }
    } catch (const std::exception &) { return 1; }
}

// ------------------------------------------------------------------------------------------- data frames

static std::string default_cell(DataType dt) {
    switch (dt) {
        case DataType::Bool: return "b:0"; case DataType::Int32: return "i32:0"; case DataType::UInt32: return "u32:0";
        case DataType::Int64: return "i64:0"; case DataType::UInt64: return "u64:0"; case DataType::Double: return "d:" + dbl_bits(0.0);
        default: return "s:0''";
    }
}

// read buffers start out with a value nothing stores, so that elements a read leaves untouched do not pass for stored defaults
static int32_t sentinel_of(int32_t *) { return 0x5a5a5a5a; } static uint32_t sentinel_of(uint32_t *) { return 0x5a5a5a5au; }
static int64_t sentinel_of(int64_t *) { return 0x5a5a5a5a5a5a5a5aLL; } static uint64_t sentinel_of(uint64_t *) { return 0x5a5a5a5a5a5a5a5aULL; }
static double sentinel_of(double *) { return -7.25e77; } static std::string sentinel_of(std::string *) { return std::string("\x01never-assigned"); }

int create_frame_op(World &w, const Op &op) {
    const int *a = op.a;
    Block b = w.blk(a[0]); if (!b) return 2;
    Rng r(op.sub);
    int ncols = r.range(1, 8);
    std::vector<Column> cols;
    // column units are stored as given
    static const char *cu[] = {"", "mV", "s", "Hz", "", "m / s", "\xc2\xb5V", "muA", "kg m^2", " ms", "arb. u.", "1/mus"};
    // column names: half of the frames use c0..c7, the others draw from a pool in which names are prefixes, case variants and
    // extensions of one another (a column is looked up by name)
    static const char *cn[] = {"c", "c0", "c01", "rate", "rate_hz", "Rate", "r", "x y", "x", "\xc2\xb5", "time", "time ", "t", "value", "values", "v"};
    bool pool_names = r.chance(1, 2);
    // wide frames: one frame in ten has more columns than a machine word has bits (per-column bookkeeping in masks, fixed-size tables) -
    // next to 32 and 64 as often as anywhere else
    if (r.chance(1, 10)) { ncols = r.chance(1, 2) ? r.range(9, 70) : (r.chance(1, 2) ? 32 : 64) + r.range(-1, 2); pool_names = false; }
    std::vector<int> order; for (int i = 0; i < 16; i++) order.push_back(i);
    for (int i = 15; i > 0; i--) { int j = (int) r.below((uint64_t) i + 1); std::swap(order[(size_t) i], order[(size_t) j]); }
    for (int i = 0; i < ncols; i++) { Column c; c.name = pool_names ? std::string(cn[order[(size_t) i]]) : "c" + std::to_string(i); c.unit = cu[r.below(r.chance(1, 2) ? 4 : 12)]; c.dtype = kVarTypes[r.below(7)]; cols.push_back(c); }
    int invalid = ((unsigned) a[2]) % 20;
    std::string name = w.resolve_name(op.s, "/data/" + b.name() + "/data_frames");
    bool dup = b.hasDataFrame(name);
    bool badname = name.empty() || name.find('/') != std::string::npos;
    std::string type = w.pick_type(a[1]);
    w.arg_class = dup ? "dup" : badname ? "bad-name" : type.empty() ? "empty-type" : "fresh";
    if (invalid == 1 && ncols >= 2) { cols[1].name = cols[0].name; w.arg_class += ",duplicate-column"; }
    else if (invalid == 2) { cols[0].dtype = DataType::Float; w.arg_class += ",unsupported-column-type"; }
    else invalid = 0;
    DataFrame df;
    try { df = b.createDataFrame(name, type, cols); }
    catch (const std::exception &) { return 1; }
    if (invalid || !df) return 0;
    FrameModel m; m.cols = cols;
    // two frames in three are given a few rows at once (a frame without rows lets every row, cell and column operation pass it by)
    if (r.chance(2, 3)) { size_t n0 = (size_t) r.range(1, 5); try { df.rows(n0); std::vector<std::string> def; for (auto &c : m.cols) def.push_back(default_cell(c.dtype)); m.cells.resize(n0, def); } catch (const std::exception &) { return 1; } }
    if (w.live.size() < 48) { Kept k; k.kind = 2; k.id = df.id(); k.session = w.session; k.frame = df; w.live["2:" + k.id] = k; }   // the creating handle lives on
    w.frame[df.id()] = m;
    w.cnt.inc(ncols <= 8 ? "frame.create.cols" + std::to_string(ncols) : ncols <= 32 ? "frame.create.cols9-32" : "frame.create.cols33-70");
    return 0;
}

template<typename T> static T variant_get(const Variant &v) { return v.get<T>(); }

int World::exec_frame(const Op &op) {
    const int *a = op.a;
    Rng r(op.sub);
    DataFrame df = frame_at(a[0], a[1]);
    // frames are rare: when the addressed block has none, the next block that has one is taken (row, cell and column operations only)
    if (!df) { ndsize_t nb = f.blockCount(); for (ndsize_t k = 1; k < nb && !df; k++) df = frame_at(a[0] + (int) k, a[1]); }
    if (!df) return 2;
    std::string id = df.id();
    auto it = frame.find(id);
    if (it == frame.end()) return 2;
    FrameModel &m = it->second;
    size_t nrows = m.cells.size(), ncols = m.cols.size();
    arg_class = "cols=" + std::to_string(ncols);
    auto has_string_unwritten = [&](size_t row) { for (size_t c = 0; c < ncols; c++) if (m.cols[c].dtype == DataType::String && m.cells[row][c] == "s:0''") return true; return false; };
    try {
        switch (op.kind) {
        case OP_frame_rows: {
            size_t n = (size_t) r.range(0, 9);
            if (r.chance(1, 4)) n = nrows + (size_t) r.range(0, 2);
            else if (a[5] == 1) n = (size_t) r.range(257, 420);                              // "long frame" runs (see gen.cpp)
            else if (r.chance(1, 25)) n = (size_t) r.range(10, 300);                         // more than one chunk
            else if (r.chance(1, 100)) n = (size_t) ((1 << r.range(8, 9)) + r.range(-1, 1));   // next to a power of two
            must_succeed = "C15.rows";
            df.rows(n);
            must_succeed.clear();
            std::vector<std::string> def; for (auto &c : m.cols) def.push_back(default_cell(c.dtype));
            m.cells.resize(n, def);
            cnt.inc(n < nrows ? "frame.shrink" : "frame.grow");
            return 0;
        }
        case OP_frame_write_row: {
            int invalid = ((unsigned) a[2]) % 16;
            size_t row = nrows ? r.below(nrows) : 0;
            if (invalid == 1 || !nrows) { row = nrows + r.below(3); arg_class += ",row-outside"; invalid = 1; }
            std::vector<Variant> v; std::vector<std::string> vs;
            for (auto &c : m.cols) { Variant x = rand_variant(r, c.dtype); v.push_back(x); vs.push_back(variant_str(x)); }
            if (invalid == 2) { v.pop_back(); arg_class += ",too-few-values"; }
            if (invalid == 3) { v[0] = rand_variant(r, other_type(r, m.cols[0].dtype)); arg_class += ",wrong-cell-type"; }
            if (!(invalid >= 1 && invalid <= 3)) must_succeed = "C15.cell";
            df.writeRow(row, v);
            must_succeed.clear();
            if (invalid >= 1 && invalid <= 3) { frame.erase(id); return 0; }   // accepted out-of-contract input: not predicted
            m.cells[row] = vs;
            cnt.inc("frame.write_row");
            return 0;
        }
        case OP_frame_write_cell: {
            if (!nrows) return 2;
            size_t row = r.below(nrows);
            int k = r.range(1, (int) ncols < 3 ? (int) ncols : 3);
            std::vector<Cell> cells; std::vector<std::pair<size_t, std::string> > upd;
            std::set<size_t> used;
            for (int i = 0; i < k; i++) {
                size_t c = r.below(ncols); if (!used.insert(c).second) continue;
                Variant x = rand_variant(r, m.cols[c].dtype);
                if (r.chance(1, 2)) cells.push_back(Cell((unsigned) c, x)); else cells.push_back(Cell(m.cols[c].name, x));
                // a Cell built from an index carries no name and vice versa; writeCells resolves by ... the backend's rule
                upd.push_back(std::make_pair(c, variant_str(x)));
            }
            // the cells reach writeCells the way programs build such lists: appended, or assigned into a pre-sized vector from
            // temporaries, reversed, swapped
            // one cell of the wrong type at a random position among good ones (mismatching element type: may be refused - then nothing may
            // have been written, the other cells of the list included - or accepted, then nothing is predicted)
            int invalid_cell = ((unsigned) a[2]) % 16;
            if (lane_prop == "C08" && invalid_cell >= 3 && invalid_cell <= 6) invalid_cell -= 2;      // where rejections are the subject: six write-cell calls in sixteen carry a wrong cell
            bool bad_cell = false;
            if ((invalid_cell == 1 || invalid_cell == 2) && !cells.empty()) {
                // the list is filled up with further good cells first, so that the wrong one has company
                for (size_t c = 0; c < ncols && cells.size() < 4; c++) { if (!used.insert(c).second) continue; Variant x = rand_variant(r, m.cols[c].dtype); cells.push_back(r.chance(1, 2) ? Cell((unsigned) c, x) : Cell(m.cols[c].name, x)); upd.push_back(std::make_pair(c, variant_str(x))); }
                size_t at = r.below(cells.size());
                size_t c = upd[at].first;
                bool to_string = m.cols[c].dtype != DataType::String && (invalid_cell == 1 || true);
                Variant wrong = to_string ? Variant(std::string("not a number")) : rand_variant(r, other_type(r, DataType::String));
                if (m.cols[c].dtype != DataType::String && invalid_cell == 2) wrong = rand_variant(r, other_type(r, m.cols[c].dtype));
                cells[at] = r.chance(1, 2) ? Cell((unsigned) c, wrong) : Cell(m.cols[c].name, wrong);
                bad_cell = true; arg_class += ",wrong-cell-type";
            }
            int build = r.range(0, 3);
            if (build == 1 && cells.size() > 1) { std::reverse(cells.begin(), cells.end()); arg_class += ",reversed"; }
            else if (build == 2) { std::vector<Cell> filled(cells.size()); for (size_t i = 0; i < cells.size(); i++) filled[i] = Cell(cells[i]); cells.clear(); cells.resize(filled.size()); for (size_t i = 0; i < filled.size(); i++) cells[i] = std::move(filled[i]); arg_class += ",assigned"; }
            else if (build == 3 && cells.size() > 1) { std::swap(cells[0], cells[cells.size() - 1]); arg_class += ",swapped"; }
            if (!bad_cell) must_succeed = "C15.cell";
            if (cells.size() == 1 && r.chance(1, 2)) { size_t c = upd[0].first; Variant x = cells[0]; df.writeCell(row, (unsigned) c, x); arg_class += ",writeCell"; }
            else { df.writeCells(row, cells); arg_class += ",writeCells"; }
            must_succeed.clear();
            if (bad_cell) { frame.erase(id); return 0; }      // accepted out-of-contract input: not predicted
            for (auto &u : upd) m.cells[row][u.first] = u.second;
            cnt.inc("frame.write_cell");
            return 0;
        }
        case OP_frame_write_col: {
            size_t c = r.below(ncols);
            DataType dt = m.cols[c].dtype;
            if (dt == DataType::Bool) return 2;
            int invalid = ((unsigned) a[2]) % 16;
            size_t off = nrows ? r.below(nrows) : 0;
            size_t n = nrows > off ? 1 + r.below(nrows - off) : 0;
            if (invalid == 1) { n = nrows - off + 1 + r.below(2); arg_class += ",count-outside"; }
            else if (n == 0) return 2;
            else invalid = 0;
            std::vector<Variant> vals; for (size_t i = 0; i < n; i++) vals.push_back(rand_variant(r, dt));
            bool by_index = r.chance(1, 2);
            size_t give = n + (r.chance(1, 3) ? r.below(3) : 0);   // vector may be longer than count
            for (size_t i = n; i < give; i++) vals.push_back(rand_variant(r, dt));
            arg_class += ",dtype=" + dtype_name(dt);
            if (!invalid) must_succeed = "C15.cell";
#define WCOL(T) { std::vector<T> v; for (auto &x : vals) v.push_back(variant_get<T>(x)); if (by_index) df.writeColumn((unsigned) c, v, off, (give == n && r.chance(1, 2)) ? 0 : n); else df.writeColumn(m.cols[c].name, v, off, n); break; }
            switch (dt) {
                case DataType::Int32: WCOL(int32_t) case DataType::UInt32: WCOL(uint32_t) case DataType::Int64: WCOL(int64_t)
                case DataType::UInt64: WCOL(uint64_t) case DataType::Double: WCOL(double) case DataType::String: WCOL(std::string)
                default: return 2;
            }
#undef WCOL
            must_succeed.clear();
            if (invalid) { frame.erase(id); return 0; }
            for (size_t i = 0; i < n; i++) m.cells[off + i][c] = variant_str(vals[i]);
            cnt.inc("frame.write_col");
            return 0;
        }
        case OP_frame_read_row: {
            if (!nrows) return 2;
            size_t row = r.below(nrows);
            if (has_string_unwritten(row)) arg_class += ",unwritten-string";
            std::vector<Variant> v = df.readRow(row);
            std::string got, want;
            for (auto &x : v) { got += variant_str(x); got += "|"; }
            for (auto &x : m.cells[row]) { want += x; want += "|"; }
            cnt.inc("frame.read_row");
            if (got != want) fail("C15.cell", "readRow(" + std::to_string(row) + ") = " + got.substr(0, 120) + " != model " + want.substr(0, 120));
            return 0;
        }
        case OP_frame_read_cell: {
            if (!nrows) return 2;
            size_t row = r.below(nrows), c = r.below(ncols);
            if (m.cols[c].dtype == DataType::String && m.cells[row][c] == "s:0''") arg_class += ",unwritten-string";
            std::string got;
            int how = r.range(0, 2);
            if (how == 0) { Cell x = df.readCell(row, (unsigned) c); got = variant_str(x); }
            else if (how == 1) { Cell x = df.readCell(row, m.cols[c].name); got = variant_str(x); }
            else {
                std::vector<std::string> names; std::vector<size_t> idx;
                names.push_back(m.cols[c].name); idx.push_back(c);
                if (ncols > 1) { size_t c2 = (c + 1 + r.below(ncols - 1)) % ncols; names.push_back(m.cols[c2].name); idx.push_back(c2); }
                std::vector<Cell> cells = df.readCells(row, names);
                cnt.inc("frame.read_cells");
                if (cells.size() != names.size()) { fail("C15.cell", "readCells returned " + std::to_string(cells.size()) + " cells for " + std::to_string(names.size()) + " columns"); return 0; }
                for (size_t i = 0; i < cells.size(); i++)
                    if (variant_str(cells[i]) != m.cells[row][idx[i]]) { fail("C15.cell", "readCells row " + std::to_string(row) + " column " + names[i] + " = " + variant_str(cells[i]).substr(0, 80) + " != model " + m.cells[row][idx[i]].substr(0, 80)); return 0; }
                return 0;
            }
            cnt.inc("frame.read_cell");
            if (got != m.cells[row][c]) fail("C15.cell", "readCell(" + std::to_string(row) + "," + std::to_string(c) + ") = " + got.substr(0, 80) + " != model " + m.cells[row][c].substr(0, 80));
            return 0;
        }
        case OP_frame_read_col: {
            size_t c = r.below(ncols);
            DataType dt = m.cols[c].dtype;
            if (dt == DataType::Bool) return 2;
            bool resize = r.chance(1, 2);
            size_t off = nrows ? r.below(nrows + 1) : 0;
            int invalid = ((unsigned) a[2]) % 16;
            if (invalid == 1) { off = nrows + 1 + r.below(2); arg_class += ",offset-outside"; }
            else invalid = 0;
            size_t avail = off <= nrows ? nrows - off : 0;
            size_t n = resize ? avail : (avail ? 1 + r.below(avail) : 0);
            bool by_index = r.chance(1, 2);
            arg_class += ",dtype=" + dtype_name(dt) + (resize ? ",resize" : ",fixed");
            if (dt == DataType::String) for (size_t i = 0; i < n && off + i < nrows; i++) if (m.cells[off + i][c] == "s:0''") { arg_class += ",unwritten-string"; break; }
            std::vector<std::string> got;
            // all four overloads: by name / by index, with and without an explicit count
            bool with_count = r.chance(1, 2) && n > 0;
            if (with_count) arg_class += ",explicit-count";
#define RCOL(T) { std::vector<T> v(resize ? (size_t) r.below(3) : n, sentinel_of((T *) nullptr)); \
                if (with_count) { if (by_index) df.readColumn((unsigned) c, v, (ndsize_t) n, resize, (ndsize_t) off); else df.readColumn(m.cols[c].name, v, (ndsize_t) n, resize, (ndsize_t) off); } \
                else if (by_index) df.readColumn((unsigned) c, v, resize, off); else df.readColumn(m.cols[c].name, v, resize, off); for (auto &x : v) got.push_back(variant_str(Variant(x))); break; }
            switch (dt) {
                case DataType::Int32: RCOL(int32_t) case DataType::UInt32: RCOL(uint32_t) case DataType::Int64: RCOL(int64_t)
                case DataType::UInt64: RCOL(uint64_t) case DataType::Double: RCOL(double) case DataType::String: RCOL(std::string)
                default: return 2;
            }
#undef RCOL
            cnt.inc("frame.read_col");
            if (invalid) return 0;
            if (got.size() != n) { fail("C15.cell", "readColumn returned " + std::to_string(got.size()) + " values, expected " + std::to_string(n)); return 0; }
            for (size_t i = 0; i < n; i++) if (got[i] != m.cells[off + i][c]) { fail("C15.cell", "readColumn row " + std::to_string(off + i) + " = " + got[i].substr(0, 80) + " != model " + m.cells[off + i][c].substr(0, 80)); return 0; }
            return 0;
        }
        default: return 2;
        }
    } catch (const std::exception &) { return 1; }
}

} // namespace sim
