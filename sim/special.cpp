#include "engine.hpp"
namespace sim {
bool lane_is_special(const std::string &lane) { (void) lane; return false; }
int run_special(World &w, const Plan &p, const std::string &dir) { w.run(p, dir); return 0; }
}
