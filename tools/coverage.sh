#!/bin/sh
# tools/coverage.sh [runs-per-lane]  - development aid: which lines / functions of /repo's library does the simulator reach?
# Builds nixsim with gcov instrumentation (make SAN=cov), runs every lane for a number of seeds, and prints per-file line
# coverage of /repo/src and /repo/backend/hdf5 plus the list of functions never executed (out: /tmp/nixsim-cov/).
# Not a check; nothing registered in MANIFEST.json depends on it.
N=${1:-400}
cd /verif || exit 1
make -s -j16 SAN=cov >/dev/null 2>&1 || { echo "cov build failed"; exit 1; }
find build/cov -name '*.gcda' -delete
BIN=build/cov/nixsim
for lane in $($BIN lanes | cut -d' ' -f1); do
  for k in 0 1 2 3 4 5 6 7; do
    $BIN worker $lane ${VERIF_SEED:-1} 0 $k $N 8 >/dev/null 2>&1 &
  done
  wait
  echo "lane $lane done" >&2
done
OUT=/tmp/nixsim-cov; rm -rf $OUT; mkdir -p $OUT
( cd $OUT && find /verif/build/cov/nix -name '*.gcda' | while read f; do gcov -f -b -o "$(dirname $f)" "$f" > "$(basename $f .gcda).summary" 2>/dev/null; done )
python3 - "$OUT" <<'PY'
import glob, os, re, sys
out = sys.argv[1]
tot_l = tot_c = 0
rows = []
unexec = []
for g in sorted(glob.glob(out + "/*.gcov")):
    src = None; lines = 0; cov = 0
    for ln in open(g, errors="replace"):
        parts = ln.split(":", 2)
        if len(parts) < 3: continue
        cnt, no = parts[0].strip(), parts[1].strip()
        if no == "0":
            if parts[2].startswith("Source:"): src = parts[2][7:].strip()
            continue
        if cnt == "-": continue
        lines += 1
        if not cnt.startswith("#") and not cnt.startswith("="): cov += 1
    if src and src.startswith("/repo/") and lines:
        rows.append((src, cov, lines))
seen = {}
for s, c, l in rows:
    o = seen.get(s)
    if o is None or c > o[0]: seen[s] = (c, l)
for s in sorted(seen):
    c, l = seen[s]; tot_l += l; tot_c += c
    print("%5.1f%% %5d/%-5d %s" % (100.0 * c / l, c, l, s))
print("TOTAL %.1f%% (%d/%d lines)" % (100.0 * tot_c / max(1, tot_l), tot_c, tot_l))
# functions never executed
fn = None
never = set(); ever = set()
for g in glob.glob(out + "/*.summary"):
    for ln in open(g, errors="replace"):
        m = re.match(r"Function '(.*)'", ln)
        if m: fn = m.group(1); continue
        m = re.match(r"Lines executed:([0-9.]+)% of (\d+)", ln)
        if m and fn:
            (ever if float(m.group(1)) > 0 else never).add(fn); fn = None
never -= ever
import subprocess
names = sorted(never)
dem = subprocess.run(["c++filt"], input="\n".join(names), stdout=subprocess.PIPE, text=True).stdout.split("\n")
dem = sorted(set(d for d in dem if d.startswith("nix::") and "std::" not in d.split("(")[0]))
open(out + "/never_executed.txt", "w").write("\n".join(dem) + "\n")
print("functions of namespace nix never executed: %d (list: %s/never_executed.txt)" % (len(dem), out))
PY
