#!/bin/sh
# tools/eval_seeded.sh [id...] - run the owning property's quick check against every seeded change (scratch copies; /repo untouched)
cd /verif
IDS="$@"; [ -z "$IDS" ] && IDS=$(ls seeded)
for id in $IDS; do
  P=$(echo $id | cut -d- -f1)
  echo "=== $id ($P ${TIER:-quick})"
  TAIL=5 tools/try_patch.sh seeded/$id/patch.diff $P ${TIER:-quick} | grep -E "VIOLATION|oracle=|quick:|thorough:|KNOWN|BUILD" | cut -c1-330
done
