#!/bin/sh
# tools/confirm_mutant.sh <worktree> <mN> <Cxx>
# Re-verifies a seeded change produced in a scratch worktree: applies it there, rebuilds, runs the repository's
# test suite serially, builds and runs the demonstration (must fail), reverts, rebuilds, runs the demonstration
# (must pass).  On success the change is stored as /verif/seeded/<Cxx>-<mN>/ (patch.diff, demo, meta.json).
WT=$1; M=$2; P=$3
D=$WT/mutants/$M
cd "$WT" || exit 1
git checkout -q -- . ; git apply --check "$D/patch.diff" || { echo "patch does not apply"; exit 1; }
git apply "$D/patch.diff"
cmake --build _build -j 8 > /tmp/confirm-$P-$M.build.log 2>&1 || { echo "BUILD FAILED with patch"; git checkout -q -- .; exit 1; }
(cd _build && ctest -j1 --timeout 900 2>&1 | tail -3) > /tmp/confirm-$P-$M.tests.log
TESTS=$(grep -c "100% tests passed" /tmp/confirm-$P-$M.tests.log)
DEMO=$(ls $D/demo_*.cpp | head -1)
g++ -std=c++11 -pthread -DH5_USE_110_API=1 -I$WT/include -I$WT/_build/include -I/usr/include/hdf5/serial "$DEMO" -o /tmp/confirm-$P-$M.demo -L$WT/_build -lnixio -Wl,-rpath,$WT/_build -L/usr/lib/x86_64-linux-gnu/hdf5/serial -lhdf5 -lboost_regex -lboost_filesystem -lboost_system -lboost_date_time 2>/tmp/confirm-$P-$M.demo.log || { echo "DEMO BUILD FAILED"; git checkout -q -- .; exit 1; }
/tmp/confirm-$P-$M.demo > /tmp/confirm-$P-$M.with.log 2>&1; RC_WITH=$?
git checkout -q -- .
cmake --build _build -j 8 >> /tmp/confirm-$P-$M.build.log 2>&1
# header-only changes live in the demo binary itself: rebuild it against the reverted tree
g++ -std=c++11 -pthread -DH5_USE_110_API=1 -I$WT/include -I$WT/_build/include -I/usr/include/hdf5/serial "$DEMO" -o /tmp/confirm-$P-$M.demo -L$WT/_build -lnixio -Wl,-rpath,$WT/_build -L/usr/lib/x86_64-linux-gnu/hdf5/serial -lhdf5 -lboost_regex -lboost_filesystem -lboost_system -lboost_date_time 2>>/tmp/confirm-$P-$M.demo.log
/tmp/confirm-$P-$M.demo > /tmp/confirm-$P-$M.without.log 2>&1; RC_WITHOUT=$?
rm -f /tmp/confirm-$P-$M.demo
echo "$P-$M: tests_pass=$TESTS demo_rc_with_patch=$RC_WITH demo_rc_without=$RC_WITHOUT"
if [ "$TESTS" = "1" ] && [ "$RC_WITH" != "0" ] && [ "$RC_WITHOUT" = "0" ]; then
  mkdir -p /verif/seeded/$P-$M
  cp "$D/patch.diff" "$DEMO" /verif/seeded/$P-$M/
  python3 - "$D/meta.json" /verif/seeded/$P-$M/meta.json "$P" "$RC_WITH" <<'PY'
import json,sys
src,dst,prop,rc=sys.argv[1:5]
try: m=json.load(open(src))
except Exception: m={}
out={"property":prop,"summary":m.get("summary",""),"needs":m.get("needs",""),"files":m.get("files",[]),
 "confirmed":{"patch_applies_to_repo_head":True,"repo_tests_serial_pass_with_patch":True,"demo_exit_with_patch":int(rc),"demo_exit_without_patch":0,
 "how":"tools/confirm_mutant.sh: git apply in a scratch worktree, cmake --build, ctest -j1 (31 suites), demo built against the worktree's libnixio; then reverted, rebuilt, demo re-run"}}
json.dump(out,open(dst,"w"),indent=1)
PY
  echo "stored /verif/seeded/$P-$M"
else
  echo "NOT CONFIRMED"; tail -5 /tmp/confirm-$P-$M.with.log
fi
