// Cache knob: nix always opens with H5P_DEFAULT; the harness swaps in a per-run
// file-access list (chunk cache size, sieve buffer) through -Wl,--wrap.
#include "sim.hpp"
#include <hdf5.h>
#include <cstdlib>

extern "C" hid_t __real_H5Fopen(const char *name, unsigned flags, hid_t fapl);
extern "C" hid_t __real_H5Fcreate(const char *name, unsigned flags, hid_t fcpl, hid_t fapl);

namespace {
int g_cache_mode = 0, g_sieve_mode = 0, g_mdc_mode = 0;
uint64_t g_applied = 0, g_mdc_applied = 0;

// the knob is applied on top of whatever access list the library passes (a copy of it; H5P_DEFAULT today)
hid_t make_fapl(hid_t given) {
    if (g_cache_mode == 0 && g_sieve_mode == 0 && g_mdc_mode == 0) return given;
    hid_t fapl = given == H5P_DEFAULT ? H5Pcreate(H5P_FILE_ACCESS) : H5Pcopy(given);
    if (fapl < 0) return given;
    if (g_cache_mode == 1) H5Pset_cache(fapl, 0, 0, 0, 0.75);
    if (g_cache_mode == 2) H5Pset_cache(fapl, 0, 13, 64 * 1024, 0.75);
    if (g_sieve_mode == 1) H5Pset_sieve_buf_size(fapl, 0);
    if (g_mdc_mode) {
        // a metadata cache of fixed small size: object headers, link tables and heaps are evicted (written when dirty, re-read when needed)
        // in the middle of a session, the way they are in a file that has outgrown the default 2 MiB cache
        H5AC_cache_config_t c; c.version = H5AC__CURR_CACHE_CONFIG_VERSION;
        if (H5Pget_mdc_config(fapl, &c) >= 0) {
            size_t sz = g_mdc_mode == 1 ? 128 * 1024 : 32 * 1024;
            c.set_initial_size = 1; c.initial_size = sz; c.min_size = sz; c.max_size = sz;
            c.incr_mode = H5C_incr__off; c.flash_incr_mode = H5C_flash_incr__off; c.decr_mode = H5C_decr__off;
            if (H5Pset_mdc_config(fapl, &c) >= 0) g_mdc_applied++;
        }
    }
    g_applied++;
    return fapl;
}
}

extern "C" hid_t __wrap_H5Fopen(const char *name, unsigned flags, hid_t fapl) {
    hid_t mine = make_fapl(fapl);
    hid_t r = __real_H5Fopen(name, flags, mine);
    if (mine != fapl) H5Pclose(mine);
    return r;
}
extern "C" hid_t __wrap_H5Fcreate(const char *name, unsigned flags, hid_t fcpl, hid_t fapl) {
    hid_t mine = make_fapl(fapl);
    hid_t r = __real_H5Fcreate(name, flags, fcpl, mine);
    if (mine != fapl) H5Pclose(mine);
    return r;
}

// Transfer-buffer knob: nix reads and writes with the default transfer list, whose type-conversion buffer is 1 MiB; a smaller one makes
// libhdf5 convert compound rows and variable-length strings in strips (another route through the same code) - and spares the
// sanitizer a megabyte mapping per call.
extern "C" herr_t __real_H5Dread(hid_t d, hid_t mt, hid_t ms, hid_t fs, hid_t dxpl, void *buf);
extern "C" herr_t __real_H5Dwrite(hid_t d, hid_t mt, hid_t ms, hid_t fs, hid_t dxpl, const void *buf);
namespace {
int g_tbuf_mode = 0; hid_t g_dxpl = -1; int g_dxpl_mode = -1; uint64_t g_tbuf_applied = 0;
hid_t transfer_list(hid_t given) {
    if (g_tbuf_mode == 0 || given != H5P_DEFAULT) return given;
    if (g_dxpl < 0 || g_dxpl_mode != g_tbuf_mode) {
        if (g_dxpl >= 0) H5Pclose(g_dxpl);
        g_dxpl = H5Pcreate(H5P_DATASET_XFER);
        if (g_dxpl < 0) return given;
        H5Pset_buffer(g_dxpl, g_tbuf_mode == 1 ? 64 * 1024 : 16 * 1024, NULL, NULL);
        g_dxpl_mode = g_tbuf_mode;
    }
    g_tbuf_applied++;
    return g_dxpl;
}
}
extern "C" herr_t __wrap_H5Dread(hid_t d, hid_t mt, hid_t ms, hid_t fs, hid_t dxpl, void *buf) { return __real_H5Dread(d, mt, ms, fs, transfer_list(dxpl), buf); }
extern "C" herr_t __wrap_H5Dwrite(hid_t d, hid_t mt, hid_t ms, hid_t fs, hid_t dxpl, const void *buf) { return __real_H5Dwrite(d, mt, ms, fs, transfer_list(dxpl), buf); }

namespace sim {
void h5knob_tbuf(int mode) { g_tbuf_mode = mode; }
uint64_t h5knob_tbuf_applied() { return g_tbuf_applied; }
void h5knob_set(int c, int s) { g_cache_mode = c; g_sieve_mode = s; }
uint64_t h5knob_applied() { return g_applied; }
void h5knob_mdc(int m) { g_mdc_mode = m; }
uint64_t h5knob_mdc_applied() { return g_mdc_applied; }
void h5_quiet() { if (!getenv("NIXSIM_H5DIAG")) H5Eset_auto2(H5E_DEFAULT, NULL, NULL); }
void h5_warm() {
    H5open();
    h5_quiet();
    hid_t p = H5Pcreate(H5P_FILE_ACCESS); if (p >= 0) H5Pclose(p);
    hid_t s = H5Screate(H5S_SCALAR); if (s >= 0) H5Sclose(s);
    hid_t t = H5Tcopy(H5T_C_S1); if (t >= 0) H5Tclose(t);
}
}

// ---- exception tracing (development / replay aid): NIXSIM_TRACE=1 prints every exception thrown by nix code
#include <typeinfo>
#include <exception>
#include <cstdio>
#include <cstdlib>
extern "C" void __sanitizer_print_stack_trace(void) __attribute__((weak));
extern "C" void __real___cxa_throw(void *thrown, std::type_info *tinfo, void (*dest)(void *)) __attribute__((noreturn));
namespace sim { int g_trace = -1; }
extern "C" void __wrap___cxa_throw(void *thrown, std::type_info *tinfo, void (*dest)(void *)) {
    if (sim::g_trace < 0) sim::g_trace = getenv("NIXSIM_TRACE") ? 1 : 0;
    if (sim::g_trace) {
        void *adj = thrown;
        const char *what = "";
        if (typeid(std::exception).__do_catch(tinfo, &adj, 1)) what = static_cast<std::exception *>(adj)->what();
        fprintf(stdout, "    throw %s: %s\n", tinfo->name(), what);
        if (getenv("NIXSIM_BT")) { fflush(stdout); H5Eprint2(H5E_DEFAULT, stdout); fflush(stdout); if (__sanitizer_print_stack_trace) __sanitizer_print_stack_trace(); }
    }
    __real___cxa_throw(thrown, tinfo, dest);
}
