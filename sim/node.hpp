// Generic ordered document used both for observation results and differential oracles.
#ifndef NIXSIM_NODE_HPP
#define NIXSIM_NODE_HPP
#include "sim.hpp"
#include <string>
#include <vector>
#include <set>

namespace sim {

struct Node {
    std::string key;
    std::string val;
    std::vector<Node> kids;
    bool list;          // kids are ordered elements
    Node() : list(false) {}
    Node(const std::string &k, const std::string &v) : key(k), val(v), list(false) {}
    Node &add(const std::string &k, const std::string &v) { kids.push_back(Node(k, v)); return kids.back(); }
    Node &sub(const std::string &k, bool is_list = false) { kids.push_back(Node(k, "")); kids.back().list = is_list; return kids.back(); }
    const Node *find(const std::string &k) const { for (auto &c : kids) if (c.key == k) return &c; return nullptr; }
    Node *find(const std::string &k) { for (auto &c : kids) if (c.key == k) return &c; return nullptr; }
    std::string field(const std::string &k) const { const Node *n = find(k); return n ? n->val : std::string(); }
    bool is_record() const { return find("id") != nullptr; }
};

std::string render(const Node &n, int indent = 0);
void hash_node(const Node &n, Hash &h, bool abstract_ids);
uint64_t node_hash(const Node &n, bool abstract_ids = false);
// first difference; returns true if equal. "<gone>" in `a` matches "", "<none>", "<throws>" in b.
bool node_equal(const Node &a, const Node &b, std::string &where);
// collect the ids of the record with id `id` and of all records nested below it
bool collect_subtree_ids(const Node &doc, const std::string &id, std::set<std::string> &out);
// C04 transformer: remove records whose id is in `ids`, remove link-list entries naming them,
// and turn scalar link fields naming them into "<gone>"
void remove_ids(Node &doc, const std::set<std::string> &ids);
// all (path, id) pairs of records in document order; path is made of container keys and names
void collect_records(const Node &doc, const std::string &prefix, std::vector<std::pair<std::string, std::string> > &out);
// every value of an "id" field anywhere
void collect_all_ids(const Node &doc, std::vector<std::string> &out);
// order check between two successive documents: in every list present in both (matched by path),
// surviving elements keep their relative order and new elements come after all survivors
bool order_preserved(const Node &before, const Node &after, std::string &where);

std::string hex64(uint64_t v);
std::string dbl_bits(double d);

} // namespace sim
#endif
