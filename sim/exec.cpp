// Run loop, sessions, generic (differential) oracles.
#include "engine.hpp"
#include <cstring>
#include <cstdio>
#include <cerrno>
#include <thread>
#include <fcntl.h>
#include <unistd.h>
#include <sys/wait.h>
#include <sys/syscall.h>

using namespace nix;

namespace sim {
extern int g_trace;
static void index_records(const Node &n, std::map<std::string, const Node *> &idx);

static const char *kNames[] = {
#define X(n, o, m) #n,
    NIXSIM_OPS(X)
#undef X
};
static const char *kOwners[] = {
#define X(n, o, m) o,
    NIXSIM_OPS(X)
#undef X
};
static const int kMods[] = {
#define X(n, o, m) m,
    NIXSIM_OPS(X)
#undef X
};
const char *op_name(int k) { return (k >= 0 && k < OP_COUNT) ? kNames[k] : "?"; }
const char *op_owner(int k) { return (k >= 0 && k < OP_COUNT) ? kOwners[k] : "?"; }
bool op_modifies(int k) { return (k >= 0 && k < OP_COUNT) ? kMods[k] != 0 : false; }
int op_from_name(const std::string &n) { for (int i = 0; i < OP_COUNT; i++) if (n == kNames[i]) return i; return -1; }

bool wellformed_uuid(const std::string &s) {
    if (s.size() != 36) return false;
    for (size_t i = 0; i < 36; i++) {
        char c = s[i];
        if (i == 8 || i == 13 || i == 18 || i == 23) { if (c != '-') return false; }
        else if (!((c >= '0' && c <= '9') || (c >= 'a' && c <= 'f') || (c >= 'A' && c <= 'F'))) return false;
    }
    return true;
}

void World::fail(const std::string &oracle, const std::string &detail) {
    // several oracles may fire at one step; the one that belongs to the lane's own property is the one reported
    bool own = oracle.compare(0, lane_prop.size(), lane_prop) == 0 && oracle.size() > lane_prop.size() && oracle[lane_prop.size()] == '.';
    if (viol.set && (viol_own || !own)) return;
    viol_own = own;
    viol.set = true; viol.oracle = oracle; viol.op_index = cur;
    viol.op = (cur >= 0 && cur < (int) plan.ops.size()) ? op_name(plan.ops[cur].kind) : "-";
    viol.arg_class = arg_class; viol.detail = detail;
}

double g_t_obs = 0, g_t_models = 0, g_t_live = 0, g_t_exec = 0, g_t_gather = 0;
Node World::obs() {
    double t0__ = wall_now();
    struct T__ { double t0; ~T__() { g_t_obs += wall_now() - t0; } } t__{t0__};
    // the lookup-agreement predicates (several lookups per entity, each a scan of its siblings) are evaluated on every observation in
    // the lane that owns them and on the first observation of every session elsewhere
    ObsOpts o; o.check_lookups = lane_prop == "C03" || lookups_due; o.check_dims = true; o.read_data = true;
    lookups_due = false;
    std::vector<std::string> v;
    Node d = observe(f, o, &v, &getters);
    cnt.inc("observe"); if (o.check_lookups) cnt.inc("observe.with_lookups");
    for (size_t i = 0; i < v.size() && i < 4; i++) fail(v[i].substr(0, v[i].find(' ')), v[i]);
    return d;
}

std::string World::open_path() { return shaped(path); }

// the name under which the program refers to file p (a file in the simulation directory): see path_shape / via_symlink
std::string World::shaped(const std::string &p) {
    bool inside = p.compare(0, dir.size() + 1, dir + "/") == 0;
    if (path_shape == 1 && inside) { cnt.inc("open.relative_path"); return p.substr(dir.size() + 1); }       // relative to the working directory
    if (path_shape == 2 && inside) { cnt.inc("open.redundant_separators"); return dir + "//./" + p.substr(dir.size() + 1); }
    if (!via_symlink || !inside) return p;
    std::string l = dir + "/link to " + p.substr(dir.size() + 1);
    syscall(SYS_unlink, l.c_str());
    if (syscall(SYS_symlink, p.c_str(), l.c_str()) != 0) return p;
    cnt.inc("open.via_symlink");
    return l;
}

bool World::open_file(int m, bool create) {
    // the open itself is part of a read-only session: remember the disk state before it
    std::string pre_bytes;
    uint64_t w0 = disk_write_calls(path);
    int wo0 = disk_write_opens(path);
    if (m == 1 && !create) disk_read_all(path, pre_bytes);
    try {
        FileMode fm = create ? FileMode::Overwrite : (m ? FileMode::ReadOnly : FileMode::ReadWrite);
        Compression comp = plan.swarm.file_compression ? Compression::DeflateNormal : Compression::None;
        // the Force flag only bypasses the version check: on a file of the library's own version it must make no difference
        OpenFlags fl = (next_open_force && !create) ? OpenFlags::Force : OpenFlags::None;
        if (next_open_force && !create) cnt.inc("open.force_flag");
        next_open_force = false;
        f = File::open(open_path(), fm, "hdf5", comp, fl);
        is_open = true; mode = m; session++; lookups_due = true;
        cnt.inc(m ? "open.ro" : (create ? "open.create" : "open.rw"));
        if (m == 1) { ro_tracking = true; ro_bytes = pre_bytes; ro_writes0 = w0; ro_wopens0 = wo0; }
        return true;
    } catch (const std::exception &e) {
        is_open = false;
        f = nix::none;
        return false;
    }
}

static void keep_one(World &w, Kept k, size_t cap = 64) { k.session = w.session; if (w.kept.size() < cap) w.kept.push_back(k); }

void World::gather_handles(uint64_t sub) {
    Rng r(sub);
    if (!is_open) return;
    bool crowd = hoard_next_close; hoard_next_close = false;
    if (r.chance(1, 5) || crowd) {
        // a program that holds on to everything: handles to every entity of the file (a few hundred; more after mk_crowd) are alive at close
        try {
            const size_t cap = crowd ? 1500 : 320;
            cnt.inc("close.hoarded_handles");
            for (auto &b : f.blocks()) {
                { Kept k; k.kind = 0; k.block = b; k.id = b.id(); keep_one(*this, k, cap); }
                for (auto &x : b.dataArrays()) { Kept k; k.kind = 1; k.array = x; k.id = x.id(); keep_one(*this, k, cap); for (auto &d : x.dimensions()) { Kept kd; kd.kind = 10; kd.dim = d; keep_one(*this, kd, cap); } }
                for (auto &x : b.dataFrames()) { Kept k; k.kind = 2; k.frame = x; k.id = x.id(); keep_one(*this, k, cap); }
                for (auto &x : b.tags()) { Kept k; k.kind = 3; k.tag = x; k.id = x.id(); keep_one(*this, k, cap); for (auto &ft : x.features()) { Kept kf; kf.kind = 9; kf.feature = ft; keep_one(*this, kf, cap); } }
                for (auto &x : b.multiTags()) { Kept k; k.kind = 4; k.mtag = x; k.id = x.id(); keep_one(*this, k, cap); }
                for (auto &x : b.groups()) { Kept k; k.kind = 5; k.group = x; k.id = x.id(); keep_one(*this, k, cap); }
                for (auto &x : all_sources(b)) { Kept k; k.kind = 6; k.source = x; k.id = x.id(); keep_one(*this, k, cap); }
            }
            for (auto &x : all_sections()) { Kept k; k.kind = 7; k.section = x; k.id = x.id(); keep_one(*this, k, cap); for (auto &p : x.properties()) { Kept kp; kp.kind = 8; kp.property = p; kp.id = p.id(); keep_one(*this, kp, cap); } }
        } catch (const std::exception &) {}
        return;
    }
    try {
        { Kept k; k.kind = 12; k.file = f; keep_one(*this, k); }
        ndsize_t nb = f.blockCount();
        if (nb) {
            Block b = f.getBlock(r.below(nb));
            { Kept k; k.kind = 0; k.block = b; k.id = b.id(); keep_one(*this, k); }
            if (b.dataArrayCount()) {
                DataArray a = b.getDataArray(r.below(b.dataArrayCount()));
                { Kept k; k.kind = 1; k.array = a; k.id = a.id(); keep_one(*this, k); }
                if (a.dimensionCount()) { Kept k; k.kind = 10; k.dim = a.getDimension(1 + r.below(a.dimensionCount())); keep_one(*this, k); }
                NDSize ext = a.dataExtent();
                if (ext.size() && ext.nelms() > 0 && r.chance(1, 2)) {
                    Kept k; k.kind = 11; k.view = std::make_shared<DataView>(a, ext, NDSize(ext.size(), 0)); keep_one(*this, k);
                }
            }
            if (b.dataFrameCount()) { Kept k; k.kind = 2; k.frame = b.getDataFrame(r.below(b.dataFrameCount())); k.id = k.frame.id(); keep_one(*this, k); }
            if (b.tagCount()) {
                Tag t = b.getTag(r.below(b.tagCount()));
                { Kept k; k.kind = 3; k.tag = t; k.id = t.id(); keep_one(*this, k); }
                if (t.featureCount()) { Kept k; k.kind = 9; k.feature = t.getFeature(r.below(t.featureCount())); keep_one(*this, k); }
            }
            if (b.multiTagCount()) { Kept k; k.kind = 4; k.mtag = b.getMultiTag(r.below(b.multiTagCount())); k.id = k.mtag.id(); keep_one(*this, k); }
            if (b.groupCount()) { Kept k; k.kind = 5; k.group = b.getGroup(r.below(b.groupCount())); k.id = k.group.id(); keep_one(*this, k); }
            if (b.sourceCount()) { Kept k; k.kind = 6; k.source = b.getSource(r.below(b.sourceCount())); k.id = k.source.id(); keep_one(*this, k); }
        }
        ndsize_t ns = f.sectionCount();
        if (ns) {
            Section s = f.getSection(r.below(ns));
            { Kept k; k.kind = 7; k.section = s; k.id = s.id(); keep_one(*this, k); }
            if (s.propertyCount()) { Kept k; k.kind = 8; k.property = s.getProperty(r.below(s.propertyCount())); k.id = k.property.id(); keep_one(*this, k); }
        }
    } catch (const std::exception &) {
        // a getter that throws while gathering is not this oracle's business
    }
}

void World::close_file(bool gather, uint64_t sub) {
    if (!is_open) return;
    if (f2_open) { try { f2.close(); } catch (const std::exception &) {} f2 = nix::none; f2_open = false; }
    live.clear();
    if (gather) gather_handles(sub);
    std::string p = path;
    try {
        f.close();
    } catch (const std::exception &e) {
        fail("C11.progress", std::string("File::close() threw: ") + e.what());
    }
    is_open = false;
    cnt.inc("close");
    cnt.inc("close.kept_handles", kept.size());
    // C11.fd-released: when close() has returned no descriptor for the file is left, whatever handles are alive
    int fds = disk_open_fds(p);
    if (fds != 0) fail("C11.fd-released", "after File::close() returned, " + std::to_string(fds) + " descriptor(s) on the file are still open (" + std::to_string(kept.size()) + " entity handles alive)");
    if (ro_tracking) {
        ro_tracking = false;
        std::string now;
        disk_read_all(p, now);
        cnt.inc("ro_session.checked");
        if (now != ro_bytes) fail("C09.ro-no-write", "file bytes changed during a ReadOnly session");
        else if (disk_write_calls(p) != ro_writes0) fail("C09.ro-no-write", std::to_string((unsigned long long) (disk_write_calls(p) - ro_writes0)) + " write-class system call(s) were issued on the file during a ReadOnly session");
        else if (disk_write_opens(p) != ro_wopens0) fail("C09.ro-no-write", "the file was opened with write access during a ReadOnly session");
    }
    f = nix::none;
}

// ---------------------------------------------------------------------------------------------
// comparison of the reference models with the observed document

static void index_records(const Node &n, std::map<std::string, const Node *> &idx) {
    for (auto &c : n.kids) {
        if (c.is_record()) idx[c.field("id")] = &c;
        index_records(c, idx);
    }
}

static std::string od(bool has, double v) { return has ? dbl_bits(v) : "<none>"; }
static std::string os(bool has, const std::string &v) { return has ? "s:" + v : "<none>"; }
static std::string vd(const std::vector<double> &v) { std::string s = std::to_string(v.size()) + ":"; for (double d : v) { s += dbl_bits(d); s += ","; } return s; }
static std::string vs(const std::vector<std::string> &v) { std::string s = std::to_string(v.size()) + ":"; for (auto &x : v) s += std::to_string(x.size()) + "'" + x + "',"; return s; }

double arr_elem_as_double(const ArrModel &m, size_t i);

void World::post_models(const Node &doc) {
    std::map<std::string, const Node *> idx;
    index_records(doc, idx);
    // arrays
    for (auto it = arr.begin(); it != arr.end();) {
        auto f = idx.find(it->first);
        if (f == idx.end()) { dims.erase(it->first); it = arr.erase(it); continue; }
        [&]() {          // a failure ends the checks of this entity only
        const Node &n = *f->second;
        const ArrModel &m = it->second;
        // the data of an array that carries an alias range dimension are that dimension's ticks
        auto dm0 = dims.find(it->first);
        bool aliased = lane_prop == "C13" && dm0 != dims.end() && !dm0->second.empty() && dm0->second[0].kind == 4;
        std::string ext = "(";
        for (size_t i = 0; i < m.extent.size(); i++) { if (i) ext += ","; ext += std::to_string((unsigned long long) m.extent[i]); }
        ext += ")";
        std::string nm = n.field("name");
        if (n.field("dtype") != data_type_to_string(m.dtype)) { arg_class = "dtype=" + dtype_name(m.dtype); fail("C01.dtype", "array '" + nm + "' dtype " + n.field("dtype") + " != model " + data_type_to_string(m.dtype)); return; }
        if (n.field("extent") != ext) { arg_class = "dtype=" + dtype_name(m.dtype); fail(aliased ? "C13.alias-mirror" : "C01.extent", "array '" + nm + "' extent " + n.field("extent") + " != model " + ext + (aliased ? " (the array carries an alias range dimension: its data are the ticks)" : "")); return; }
        std::string raw;
        if (m.dtype == DataType::String) { for (auto &s : m.strs) { raw += std::to_string(s.size()); raw += "'"; raw += s; raw += "',"; } }
        else raw = m.raw;
        std::string want = m.nelms() == 0 ? std::string("0:") + hex64(hash_bytes("", 0)) : std::to_string(raw.size()) + ":" + hex64(hash_bytes(raw.data(), raw.size()));
        if (n.field("data") != want) { arg_class = "dtype=" + dtype_name(m.dtype); fail(aliased ? "C13.alias-mirror" : "C01.read-equals-model", "array '" + nm + "' stored data differ from the model (whole raw read) got " + n.field("data") + " want " + want + (aliased ? " (the array carries an alias range dimension: its data are the ticks)" : "")); return; }
        if (n.field("origin") != od(m.has_origin, m.origin)) { fail("C01.raw-unaffected", "array '" + nm + "' expansion origin " + n.field("origin") + " != model"); return; }
        if (n.field("polynom") != vd(m.poly)) { fail("C01.raw-unaffected", "array '" + nm + "' polynom coefficients " + n.field("polynom") + " != model " + vd(m.poly)); return; }
        // dimension descriptors
        auto dm = dims.find(it->first);
        if (dm != dims.end()) {
            const Node *dl = n.find("dims");
            const std::vector<DimModel> &dv = dm->second;
            if (!dl || dl->kids.size() != dv.size()) { fail("C13.gapfree", "array '" + nm + "' has " + std::to_string(dl ? dl->kids.size() : 0) + " dimension descriptors, model has " + std::to_string(dv.size())); return; }
            for (size_t i = 0; i < dv.size(); i++) {
                const Node &d = dl->kids[i];
                const DimModel &x = dv[i];
                std::string pre = "array '" + nm + "' dimension " + std::to_string(i + 1) + ": ";
                if (d.field("index") != std::to_string(i + 1)) { fail("C13.gapfree", pre + "index reads " + d.field("index")); return; }
                const char *kinds[] = {"sampled", "range", "set", "frame", "range"};
                if (d.field("kind") != kinds[x.kind]) { fail("C13.faithful", pre + "kind " + d.field("kind") + " != " + kinds[x.kind]); return; }
                if (x.kind == 0) {
                    if (d.field("interval") != dbl_bits(x.interval)) { fail("C13.faithful", pre + "sampling interval " + d.field("interval") + " != " + dbl_bits(x.interval)); return; }
                    if (d.field("offset") != od(x.has_offset, x.offset)) { fail("C13.faithful", pre + "offset " + d.field("offset") + " != " + od(x.has_offset, x.offset)); return; }
                    if (d.field("label") != os(x.has_label, x.label)) { fail("C13.faithful", pre + "label " + d.field("label") + " != " + os(x.has_label, x.label)); return; }
                    if (d.field("unit") != os(x.has_unit, x.unit)) { fail("C13.faithful", pre + "unit " + d.field("unit") + " != " + os(x.has_unit, x.unit)); return; }
                } else if (x.kind == 1) {
                    if (d.field("alias") != "0") { fail("C13.faithful", pre + "alias flag set on a plain range dimension"); return; }
                    if (d.field("ticks") != vd(x.ticks)) { fail("C13.faithful", pre + "ticks " + d.field("ticks").substr(0, 80) + " != " + vd(x.ticks).substr(0, 80)); return; }
                    if (d.field("label") != os(x.has_label, x.label)) { fail("C13.faithful", pre + "label " + d.field("label") + " != " + os(x.has_label, x.label)); return; }
                    if (d.field("unit") != os(x.has_unit, x.unit)) { fail("C13.faithful", pre + "unit " + d.field("unit") + " != " + os(x.has_unit, x.unit)); return; }
                } else if (x.kind == 2) {
                    if (d.field("labels") != vs(x.labels)) { fail("C13.faithful", pre + "labels " + d.field("labels").substr(0, 80) + " != " + vs(x.labels).substr(0, 80)); return; }
                    if (d.field("label") != os(x.has_label, x.label)) { fail("C13.faithful", pre + "label " + d.field("label") + " != " + os(x.has_label, x.label)); return; }
                } else if (x.kind == 3) {
                    std::string fr = d.field("lnk_frame");
                    bool frame_alive = idx.count(x.frame_id) != 0;
                    if (frame_alive && fr != x.frame_id) { fail("C13.faithful", pre + "data frame " + fr + " != " + x.frame_id); return; }
                    std::string col = x.column < 0 ? "<none>" : std::to_string(x.column);
                    if (frame_alive && d.field("column") != col) { fail("C13.faithful", pre + "column " + d.field("column") + " != " + col); return; }
                } else if (x.kind == 4) {
                    // alias: mirrors the array itself
                    if (d.field("alias") != "1") { fail("C13.alias-mirror", pre + "alias flag not set"); return; }
                    std::vector<double> t;
                    for (size_t k = 0; k < m.nelms(); k++) t.push_back(arr_elem_as_double(m, k));
                    if (d.field("ticks") != vd(t)) { fail("C13.alias-mirror", pre + "alias ticks " + d.field("ticks").substr(0, 80) + " != array data " + vd(t).substr(0, 80)); return; }
                    if (d.field("label") != n.field("label")) { fail("C13.alias-mirror", pre + "alias label " + d.field("label") + " != array label " + n.field("label")); return; }
                    if (d.field("unit") != n.field("unit")) { fail("C13.alias-mirror", pre + "alias unit " + d.field("unit") + " != array unit " + n.field("unit")); return; }
                }
            }
        }
        }();
        ++it;
    }
    // properties
    for (auto it = prop.begin(); it != prop.end();) {
        auto f = idx.find(it->first);
        if (f == idx.end()) { it = prop.erase(it); continue; }
        [&]() {
        const Node &n = *f->second;
        const PropModel &m = it->second;
        std::string nm = n.field("name");
        arg_class = "dtype=" + dtype_name(m.dtype);
        if (n.field("dtype") != data_type_to_string(m.dtype)) { fail("C14.type", "property '" + nm + "' type " + n.field("dtype") + " != model " + data_type_to_string(m.dtype)); return; }
        if (m.specified) {
            std::string s = std::to_string(m.values.size()) + ":";
            for (auto &x : m.values) { s += x; s += "|"; }
            if (n.field("value_count") != std::to_string(m.values.size())) { fail("C14.count", "property '" + nm + "' valueCount " + n.field("value_count") + " != " + std::to_string(m.values.size())); return; }
            if (n.field("values") != s) { fail("C14.values", "property '" + nm + "' values " + n.field("values").substr(0, 100) + " != " + s.substr(0, 100)); return; }
        }
        if (n.field("unit") != os(m.has_unit, m.unit)) { fail("C14.attrs", "property '" + nm + "' unit " + n.field("unit") + " != " + os(m.has_unit, m.unit)); return; }
        if (n.field("uncertainty") != od(m.has_unc, m.unc)) { fail("C14.attrs", "property '" + nm + "' uncertainty " + n.field("uncertainty") + " != " + od(m.has_unc, m.unc)); return; }
        if (n.field("definition") != os(m.has_def, m.def)) { fail("C14.attrs", "property '" + nm + "' definition " + n.field("definition") + " != " + os(m.has_def, m.def)); return; }
        arg_class.clear();
        }();
        ++it;
    }
    // frames
    for (auto it = frame.begin(); it != frame.end();) {
        auto f = idx.find(it->first);
        if (f == idx.end()) { it = frame.erase(it); continue; }
        [&]() {
        const Node &n = *f->second;
        const FrameModel &m = it->second;
        std::string nm = n.field("name");
        std::string s = std::to_string(m.cols.size()) + ":";
        for (auto &col : m.cols) s += "'" + col.name + "'/'" + col.unit + "'/" + data_type_to_string(col.dtype) + ",";
        if (n.field("columns") != s) { fail("C15.schema", "frame '" + nm + "' columns " + n.field("columns") + " != " + s); return; }
        if (n.field("rows") != std::to_string(m.cells.size())) { fail("C15.rows", "frame '" + nm + "' rows " + n.field("rows") + " != " + std::to_string(m.cells.size())); return; }
        const Node *cl = n.find("cells");
        if (!cl || cl->kids.size() != m.cells.size()) { fail("C15.rows", "frame '" + nm + "' readable rows != model"); return; }
        for (size_t r = 0; r < m.cells.size(); r++) {
            std::string want;
            for (auto &x : m.cells[r]) { want += x; want += "|"; }
            if (cl->kids[r].val != want) { fail("C15.cell", "frame '" + nm + "' row " + std::to_string(r) + " via readRow: " + cl->kids[r].val.substr(0, 100) + " != " + want.substr(0, 100)); return; }
        }
        }();
        ++it;
    }
    arg_class.clear();
}

// ---------------------------------------------------------------------------------------------
// long-lived handles: what a handle obtained earlier in the session shows must be what a fresh lookup shows

static bool subset_equal(const Node &livev, const Node &rec, std::string &where) {
    for (auto &k : livev.kids) {
        const Node *o = rec.find(k.key);
        if (!o) continue;
        if (!node_equal(k, *o, where)) { where = k.key + where; return false; }
    }
    return true;
}

void World::check_live(const Node &doc) {
    if (live.empty()) return;
    std::map<std::string, const Node *> idx;
    index_records(doc, idx);
    int checked = 0;
    for (auto it = live.begin(); it != live.end();) { if (idx.find(it->second.id) == idx.end()) it = live.erase(it); else ++it; }     // entity is gone: not a long-lived handle any more
    // at most ten handles per observation, starting at a position that moves with the operation index so that every handle gets its turn
    std::vector<Kept *> order; for (auto &kv : live) order.push_back(&kv.second);
    size_t start = order.empty() ? 0 : ((size_t) (cur < 0 ? 0 : cur) * 7) % order.size();
    for (size_t oi = 0; oi < order.size(); oi++) {
        Kept &k = *order[(start + oi) % order.size()];
        auto f = idx.find(k.id);
        if (checked >= 10) break;
        Node n;
        try {
            switch (k.kind) {
                case 0: n = observe_block(k.block); break; case 1: n = observe_array(k.array); break; case 2: n = observe_frame(k.frame); break;
                case 3: n = observe_tag(k.tag); break; case 4: n = observe_mtag(k.mtag); break; case 5: n = observe_group(k.group); break;
                case 6: n = observe_source(k.source); break; case 7: n = observe_section(k.section); break; case 8: n = observe_property(k.property); break;
                default: break;
            }
        } catch (const std::exception &) { continue; }
        checked++;
        cnt.inc("live_handles.checked");
        std::string where;
        if (!subset_equal(n, *f->second, where)) {
            std::string ac = arg_class;
            arg_class += ",live-kind=" + std::to_string(k.kind);
            fail(lane_prop == "C03" ? "C03.agree-live" : lane_prop == "C15" ? "C15.cell-live" : lane_prop == "C13" ? "C13.faithful-live" : lane_prop == "C14" ? "C14.values-live" : lane_prop == "C01" ? "C01.read-live" : "C02.live-handle",
                 "a handle obtained earlier in this session (kind " + std::to_string(k.kind) + ", entity " + f->second->field("name") + ") shows something else than a fresh lookup of the same entity at " + where);
            arg_class = ac;
            return;
        }
        // descriptor handles obtained earlier from a long-lived array handle must show what the array's descriptors show now
        if (k.kind == 1) {
            const Node *dl = f->second->find("dims");
            size_t nd = dl && dl->val.empty() ? dl->kids.size() : 0;
            if (k.dims.size() > nd) k.dims.clear();              // the descriptors were deleted meanwhile
            for (size_t i = 0; i < k.dims.size(); i++) {
                Node hn;
                try { hn = observe_dimension(k.dims[i]); } catch (const std::exception &) { continue; }
                cnt.inc("live_handles.dimension_checked");
                if (!subset_equal(hn, dl->kids[i], where)) {
                    std::string ac = arg_class; arg_class += ",live-kind=10";
                    fail(lane_prop == "C13" ? "C13.faithful-live" : "C02.live-handle", "a dimension descriptor handle obtained earlier in this session (array " + f->second->field("name") + ", dimension " + std::to_string(i + 1) + ") shows something else than a fresh lookup at " + where);
                    arg_class = ac; return;
                }
            }
            if (k.dims.size() < nd) { try { std::vector<nix::Dimension> all = k.array.dimensions(); for (size_t i = k.dims.size(); i < all.size() && i < nd; i++) k.dims.push_back(all[i]); } catch (const std::exception &) {} }
        }
        // lookups by id through a long-lived container handle: what it held earlier and holds no more must not be found, what it holds must be
        if (k.kind == 0 || k.kind == 6 || k.kind == 7) {
            static const char *block_lists[] = {"data_arrays", "data_frames", "tags", "multi_tags", "groups", "sources", nullptr};
            static const char *source_lists[] = {"sources", nullptr};
            static const char *section_lists[] = {"properties", "sections", nullptr};
            const char **lists = k.kind == 0 ? block_lists : k.kind == 6 ? source_lists : section_lists;
            for (int li = 0; lists[li]; li++) {
                std::string lk = lists[li];
                const Node *l = f->second->find(lk);
                if (!l || !l->val.empty()) continue;
                std::map<std::string, std::string> now;      // id -> name
                for (auto &c : l->kids) if (c.is_record()) now[c.field("id")] = c.field("name");
                std::set<std::string> &seen = k.seen[lk];
                std::set<std::string> probe = seen; for (auto &kv : now) probe.insert(kv.first);
                for (auto &id : probe) {
                    bool has = false; std::string got_id, got_name; bool threw = false;
                    try {
                        if (k.kind == 0) {
                            if (lk == "data_arrays") { has = k.block.hasDataArray(id); if (has) { auto e = k.block.getDataArray(id); if (e) { got_id = e.id(); got_name = e.name(); } } }
                            else if (lk == "data_frames") { has = k.block.hasDataFrame(id); if (has) { auto e = k.block.getDataFrame(id); if (e) { got_id = e.id(); got_name = e.name(); } } }
                            else if (lk == "tags") { has = k.block.hasTag(id); if (has) { auto e = k.block.getTag(id); if (e) { got_id = e.id(); got_name = e.name(); } } }
                            else if (lk == "multi_tags") { has = k.block.hasMultiTag(id); if (has) { auto e = k.block.getMultiTag(id); if (e) { got_id = e.id(); got_name = e.name(); } } }
                            else if (lk == "groups") { has = k.block.hasGroup(id); if (has) { auto e = k.block.getGroup(id); if (e) { got_id = e.id(); got_name = e.name(); } } }
                            else { has = k.block.hasSource(id); if (has) { auto e = k.block.getSource(id); if (e) { got_id = e.id(); got_name = e.name(); } } }
                        } else if (k.kind == 6) { has = k.source.hasSource(id); if (has) { auto e = k.source.getSource(id); if (e) { got_id = e.id(); got_name = e.name(); } } }
                        else if (lk == "properties") { has = k.section.hasProperty(id); if (has) { auto e = k.section.getProperty(id); if (e) { got_id = e.id(); got_name = e.name(); } } }
                        else { has = k.section.hasSection(id); if (has) { auto e = k.section.getSection(id); if (e) { got_id = e.id(); got_name = e.name(); } } }
                    } catch (const std::exception &) { threw = true; }
                    cnt.inc("live_handles.member_lookups");
                    auto cur = now.find(id);
                    std::string bad;
                    if (cur == now.end()) { if (has) bad = "still finds the id " + id + " of a former member of its " + lk + " (now: '" + got_name + "', id " + got_id + ")"; }
                    else if (threw) bad = "throws when asked for member " + id + " of its " + lk;
                    else if (!has) bad = "does not find member " + id + " ('" + cur->second + "') of its " + lk;
                    else if (got_id != id || got_name != cur->second) bad = "returns '" + got_name + "' (" + got_id + ") when asked for member " + id + " ('" + cur->second + "') of its " + lk;
                    if (!bad.empty()) {
                        std::string ac = arg_class; arg_class += ",live-kind=" + std::to_string(k.kind) + ",member-lookup";
                        fail(lane_prop == "C03" ? "C03.agree-live" : "C02.live-handle", "a handle obtained earlier in this session (kind " + std::to_string(k.kind) + ", entity " + f->second->field("name") + ") " + bad);
                        arg_class = ac; return;
                    }
                }
                for (auto &kv : now) if (seen.size() < 24) seen.insert(kv.first);
            }
        }
    }
}

// a reader that is a different process: a freshly executed nixsim (own libhdf5 state, own nix statics, real clock, no disk seam)
// opens the closed file and prints what it sees
static bool other_process_observe(const std::string &path, bool rw, std::string &out) {
    out.clear();
    int fds[2];
    if (pipe(fds) != 0) return false;
    pid_t pid = fork();
    if (pid < 0) { close(fds[0]); close(fds[1]); return false; }
    if (pid == 0) {
        dup2(fds[1], 1); close(fds[0]); close(fds[1]);
        int dn = (int) syscall(SYS_openat, AT_FDCWD, "/dev/null", O_WRONLY);
        if (dn >= 0) dup2(dn, 2);
        std::string clk = std::to_string((long long) clock_now());
        const char *argv[] = {"nixsim", "observe", path.c_str(), rw ? "rw" : "ro", clk.c_str(), nullptr};
        execv("/proc/self/exe", (char *const *) argv);
        _exit(127);
    }
    close(fds[1]);
    char buf[65536];
    for (;;) { ssize_t n = read(fds[0], buf, sizeof buf); if (n < 0 && errno == EINTR) continue; if (n <= 0) break; out.append(buf, (size_t) n); }
    close(fds[0]);
    int st = 0;
    while (waitpid(pid, &st, 0) < 0 && errno == EINTR) {}
    return WIFEXITED(st) && WEXITSTATUS(st) == 0;
}

static std::string first_diff_line(const std::string &a, const std::string &b) {
    size_t i = 0, j = 0; int ln = 1;
    while (i < a.size() && j < b.size()) {
        size_t e1 = a.find('\n', i), e2 = b.find('\n', j);
        std::string l1 = a.substr(i, e1 - i), l2 = b.substr(j, e2 - j);
        if (l1 != l2) return "line " + std::to_string(ln) + ": '" + l1.substr(0, 120) + "' vs '" + l2.substr(0, 120) + "'";
        if (e1 == std::string::npos || e2 == std::string::npos) break;
        i = e1 + 1; j = e2 + 1; ln++;
    }
    return "length differs";
}

// what the reference models know to be stored must still be there after a restart (the models are keyed by entity id)
static void models_survive(World &w, const Node &doc, const char *what) {
    std::vector<std::string> ids;
    collect_all_ids(doc, ids);
    std::set<std::string> present(ids.begin(), ids.end());
    for (auto &kv : w.arr) if (!present.count(kv.first)) { w.fail("C01.read-equals-model", std::string("a data array with stored data is gone after ") + what); return; }
    for (auto &kv : w.prop) if (!present.count(kv.first)) { w.fail("C14.values", std::string("a property with assigned values is gone after ") + what); return; }
    for (auto &kv : w.frame) if (!present.count(kv.first)) { w.fail("C15.cell", std::string("a data frame with stored rows is gone after ") + what); return; }
    for (auto &kv : w.dims) if (!kv.second.empty() && !present.count(kv.first)) { w.fail("C13.faithful", std::string("a data array with dimension descriptors is gone after ") + what); return; }
}

static void clock_jump(World &w, int sel) {
    static const int64_t d[] = {0, 0, 1, 2, 61, 3600, 86400 * 3, 86400 * 400, -1, -3600, -86400 * 30};
    int64_t dj = d[((unsigned) sel) % (sizeof(d) / sizeof(d[0]))];
    clock_set(clock_now() + dj);
    if (dj > 0) w.cnt.inc("clock.forward");
    else if (dj < 0) w.cnt.inc("clock.backward");
    else w.cnt.inc("clock.same_second");
}

static void ids_oracles(World &w, const Node &doc) {
    // C12.stable: a record present (same container path) before and after keeps its id
    std::vector<std::pair<std::string, std::string> > a, b;
    collect_records(w.last, "", a);
    collect_records(doc, "", b);
    std::map<std::string, std::string> before;
    std::set<std::string> ids_before;
    for (auto &p : a) { before[p.first] = p.second; ids_before.insert(p.second); }
    ids_before.insert(w.last.field("id"));
    std::set<std::string> ids_now;
    for (auto &p : b) {
        auto it = before.find(p.first);
        if (it != before.end() && it->second != p.second) {
            w.fail("C12.stable", "entity at " + p.first + " changed id from " + it->second + " to " + p.second);
            return;
        }
        if (!ids_now.insert(p.second).second) { w.fail("C12.unique", "id " + p.second + " occurs twice in the file (second at " + p.first + ")"); return; }
    }
    std::string fid = doc.field("id");
    if (w.have_last && w.last.field("id") != fid && w.plan.ops[w.cur].kind != OP_force_id) { w.fail("C12.stable", "file id changed from " + w.last.field("id") + " to " + fid); return; }
    if (ids_now.count(fid)) { w.fail("C12.unique", "file id equals an entity id"); return; }
    ids_now.insert(fid);
    for (auto &id : ids_now) {
        if (ids_before.count(id)) continue;
        if (!wellformed_uuid(id)) { w.fail("C12.wellformed", "id '" + id + "' is not a well-formed UUID"); return; }
        if (!w.seen_ids.insert(id).second) { w.fail("C12.unique", "new id " + id + " was already used earlier in this run (earlier session or file)"); return; }
        w.cnt.inc("ids.new");
    }
}

bool g_blind_twin = false;
bool plan_is_twin(const Plan &p) { return p.swarm.lane == "tree" && ((p.swarm.entropy >> 24) % 4) == 0; }

static void after_op(World &w, const Op &op, int rc) {
    if (!w.is_open || w.failed() || w.blind) return;
    // an operation that was skipped (nothing to address) made no call that could change anything
    bool need = (op_modifies(op.kind) && rc != 2) || rc == 1 || !w.have_last;
    if (!need) return;
    Node doc = w.obs();
    std::string where;
    if (w.have_last) {
        if (rc == 1 && w.mode == 0) {
            // C08 is about calls rejected on a writable file; on a ReadOnly file every mutator is refused by mode (C09)
            w.cnt.inc("rejected_calls");
            if (!node_equal(w.last, doc, where)) w.fail("C08.no-trace", "call threw but the observable state changed at " + where);
            else if (w.lane_prop == "C08" && !w.last_upd.empty()) {
                // ... and it must not have moved a modification time either (the simulated clock makes that visible: it is usually
                // minutes or days past the time the entity was last written)
                std::map<std::string, std::string> now;
                observe_updated(w.f, now);
                w.cnt.inc("rejected_calls.updated_at_compared");
                for (auto &kv : w.last_upd) { auto it = now.find(kv.first); if (it != now.end() && it->second != kv.second) { w.fail("C08.no-trace", "call threw but updated_at of " + kv.first + " moved from " + kv.second + " to " + it->second); break; } }
            }
        }
        if (w.mode == 1 && rc == 0 && op_modifies(op.kind) && !node_equal(w.last, doc, where)) {
            w.fail("C09.ro-mutator-throws", "mutating call returned normally on a ReadOnly file and the observable state changed at " + where);
        }
        // replace-whole-list setters re-link every member in the order given: relative order of survivors is theirs to choose
        bool relinks = rc == 0 && (op.kind == OP_tag_setrefs || op.kind == OP_set_sources || op.kind == OP_group_set);     // a refused one must leave the order alone
        if (!relinks && !order_preserved(w.last, doc, where)) w.fail("C03.order", where);
        if (!w.expect_unchanged.empty() && rc != 2) {
            // a delete / remove call that was handed something the addressed container does not hold (an entity of another block, a section
            // that is not a child, a property of another section ...): whatever it answers, nothing else may have been harmed
            w.cnt.inc("delete.misdirected_checked");
            if (!node_equal(w.last, doc, where)) {
                // an implementation that deletes the designated entity all the same (wherever it lives) still satisfies C04 - provided that is all it did
                Node expect = w.last; std::set<std::string> ids; std::string wh2;
                if (!w.misdirected_target.empty() && collect_subtree_ids(expect, w.misdirected_target, ids)) { remove_ids(expect, ids); }
                if (!ids.empty() && node_equal(expect, doc, wh2)) w.cnt.inc("delete.misdirected_deleted_the_designated_entity");
                else w.fail(w.expect_unchanged, "a delete call that designated an entity the addressed container does not hold (" + w.arg_class + ") changed the document at " + where);
            }
        }
        if (!w.del_victim.empty() && (rc == 1 || !w.del_result) && !node_equal(w.last, doc, where)) {
            // a delete that threw or reported "nothing removed" and changed the document all the same stopped half way: the victim is still
            // exposed somewhere or something else was harmed
            w.cnt.inc("delete.failed_but_changed");
            w.fail("C04.transform", "deleting " + w.del_victim + (rc == 1 ? " threw" : " returned false") + " but the document changed at " + where);
        }
        if (!w.del_victim.empty() && rc == 0 && w.del_result) {
            // C03: deleting one entity leaves every other one enumerated where it was (the survivors' relative order is checked above)
            {
                std::set<std::string> gone;
                if (collect_subtree_ids(w.last, w.del_victim, gone)) {
                    std::vector<std::pair<std::string, std::string> > ra, rb;
                    collect_records(w.last, "", ra); collect_records(doc, "", rb);
                    std::set<std::pair<std::string, std::string> > nowset(rb.begin(), rb.end());
                    for (auto &pr : ra) {
                        if (gone.count(pr.second)) continue;
                        bool under_gone = false;      // records nested below a deleted one (features of a deleted tag, ...) go with it
                        for (auto &g : ra) if (gone.count(g.second) && pr.first.size() > g.first.size() && pr.first.compare(0, g.first.size(), g.first) == 0 && pr.first[g.first.size()] == '/') { under_gone = true; break; }
                        if (under_gone) continue;
                        if (!nowset.count(pr)) { w.fail("C03.order", "deleting " + w.del_victim + " made another entity disappear from its container: " + pr.first + " (" + pr.second + ")"); break; }
                    }
                    w.cnt.inc("delete.survivors_checked");
                }
            }
            Node expect = w.last;
            std::set<std::string> ids;
            if (collect_subtree_ids(expect, w.del_victim, ids)) {
                remove_ids(expect, ids);
                w.cnt.inc("delete.checked");
                w.cnt.inc("delete.subtree_ids", ids.size());
                if (!node_equal(expect, doc, where)) w.fail("C04.transform", "after deleting " + w.del_victim + " the document differs from 'victim removed everywhere, nothing else touched' at " + where);
                // where the harness itself keeps handles to deleted entities (abuse, durable lanes) an unlinked object - and every hard link
                // stored in it - stays alive, so validity of later victims is not a statement about nix there
                for (auto &k : w.del_handles) {
                    bool valid = true;
                    if (w.ghosts_allowed) valid = false;
                    else try {
                        switch (k.kind) {
                            case 0: valid = k.block.isValidEntity(); break; case 1: valid = k.array.isValidEntity(); break;
                            case 2: valid = k.frame.isValidEntity(); break; case 3: valid = k.tag.isValidEntity(); break;
                            case 4: valid = k.mtag.isValidEntity(); break; case 5: valid = k.group.isValidEntity(); break;
                            case 6: valid = k.source.isValidEntity(); break; case 7: valid = k.section.isValidEntity(); break;
                            case 8: valid = k.property.isValidEntity(); break; case 9: valid = k.feature.isValidEntity(); break;
                            default: valid = false;
                        }
                    } catch (const std::exception &) { valid = false; }
                    w.cnt.inc("delete.stale_handles_checked");
                    if (valid) { std::string ac = w.arg_class; w.arg_class += ",stale-kind=" + std::to_string(k.kind); w.fail("C04.invalid", "handle (kind " + std::to_string(k.kind) + ") to deleted entity " + k.id + " still reports isValidEntity()==true"); w.arg_class = ac; break; }
                    k.deleted = true; k.session = w.session;
                    // handles to deleted entities are retained only where misuse is the subject: an open handle keeps the
                    // unlinked HDF5 object - and every hard link stored inside it - alive
                    if (w.ghosts_allowed && w.kept.size() < 64) w.kept.push_back(k);
                }
            }
        }
        ids_oracles(w, doc);
    }
    { double t0 = wall_now(); w.post_models(doc); g_t_models += wall_now() - t0; }
    { double t0 = wall_now(); w.check_live(doc); g_t_live += wall_now() - t0; }
    if (w.failed()) return;
    w.state_hashes.insert(node_hash(doc, true));
    w.last = doc; w.have_last = true;
    if (w.lane_prop == "C08" && w.mode == 0) observe_updated(w.f, w.last_upd);
}

int World::exec(const Op &op) {
    del_victim.clear(); del_handles.clear(); del_result = false;
    prefer_live = ((op.sub >> 9) & 3) != 0;      // three out of four operations reuse a long-lived handle when there is one
    {   // descriptor handles held next to a long-lived array handle are let go before anything is deleted: an open handle keeps an unlinked
        // HDF5 object - and the hard links stored in it, such as an alias dimension's link to its array - alive (see the ghost handles of C04)
        const char *nm = op_name(op.kind);
        if (!strncmp(nm, "delete_", 7) || !strncmp(nm, "abuse_", 6) || op.kind == OP_dim_delete_all || op.kind == OP_mk_graph || op.kind == OP_mk_fitted || op.kind == OP_feat_delete || op.kind == OP_prop_delete || op.kind == OP_del_misdirected || op.kind == OP_replace_member)
            for (auto &kv : live) kv.second.dims.clear();
    }
    switch (op.kind) {
        case OP_flush: case OP_reopen: case OP_kill: case OP_drop: case OP_clock: case OP_flush_fault: case OP_close_fault: case OP_use_stale: case OP_keep: case OP_second_view:
            return exec_session(op);
        case OP_ro_catalogue: case OP_mode_probe: case OP_version_cube:
            return exec_special_op(*this, op);
        default: break;
    }
    if (!is_open) return 2;
    if (op.kind == OP_create_array) return create_array_op(*this, op);
    if (op.kind == OP_create_frame) return create_frame_op(*this, op);
    const char *n = op_name(op.kind);
    if (!strncmp(n, "arr_", 4)) return exec_array(op);
    if (!strncmp(n, "dim_", 4)) return exec_dims(op);
    if (!strncmp(n, "prop_", 5)) return exec_meta(op);
    if (!strncmp(n, "frame_", 6)) return exec_frame(op);
    if (!strncmp(n, "abuse_", 6)) return exec_abuse(op);
    return exec_entity(op);
}

void World::run(const Plan &p, const std::string &d) {
    if (g_trace < 0) g_trace = getenv("NIXSIM_TRACE") ? 1 : 0;
    plan = p; dir = d;
    const Swarm &s = plan.swarm;
    ghosts_allowed = s.lane == "abuse" || s.lane == "durable";
    clock_set(s.t0); clock_enable(true); sim_start = s.t0;
    entropy_seed(s.entropy);
    pid_set(4000 + (int) ((s.entropy >> 9) % 3));
    threaded_run = ((s.entropy >> 20) % 5) == 0 && !getenv("NIXSIM_NO_THREADS");
    via_symlink = ((s.entropy >> 28) % 5) == 0;
    path_shape = via_symlink ? 0 : (int) ((s.entropy >> 36) % 8);      // 1: relative path, 2: redundant separators, else the plain absolute name
    if (path_shape == 1 && syscall(SYS_chdir, dir.c_str()) != 0) path_shape = 0;
    twin_safe = plan_is_twin(plan);
    blind = twin_safe && g_blind_twin;
    h5knob_set(s.cache_mode, s.sieve_mode);
    h5knob_mdc(s.mdc_mode);
    { unsigned t = (unsigned) ((s.entropy >> 32) % 8); h5knob_tbuf(t == 0 ? 0 : (t < 5 ? 1 : 2)); }     // one run in eight keeps the default
    disk_set_perturb(s.entropy ^ 0x5151, s.perturb_pm);
    path = dir + "/f0.nix";
    disk_remove(path);
    cur = -1;
    if (!open_file(0, true)) { fail("C09.overwrite-empties", "could not create a file"); return; }
    if (!blind) { last = obs(); have_last = true; seen_ids.insert(last.field("id")); }
    for (size_t i = 0; i < plan.ops.size() && !failed() && !stop; i++) {
        cur = (int) i;
        const Op &op = plan.ops[i];
        arg_class.clear(); must_succeed.clear(); expect_unchanged.clear(); misdirected_target.clear();
        evh.str(op_to_line(op));
        progress((int) i, op.kind);
        uint64_t fileless = is_open ? 0 : 1;
        int rc;
        bool ro_guard = is_open && mode == 1 && op_modifies(op.kind);
        std::map<std::string, ArrModel> s_arr; std::map<std::string, std::vector<DimModel> > s_dims; std::map<std::string, PropModel> s_prop; std::map<std::string, FrameModel> s_frame;
        if (ro_guard) { s_arr = arr; s_dims = dims; s_prop = prop; s_frame = frame; }
        double t0x = wall_now();
        // caller threads: in some runs a part of the operations is issued from a fresh thread of the program (one at a time: started
        // and joined here, so nothing runs concurrently and the schedule stays a function of the seed); per-thread state inside the
        // library (thread_local caches, generators) thereby meets the same file from several threads
        bool threaded = threaded_run && ((op.sub >> 13) & 1) && op.kind != OP_kill && op.kind != OP_drop;
        auto body = [&]() {
            try {
                rc = exec(op);
            } catch (const std::exception &e) {
                // an exception escaping an op's own handling: treated as "threw"
                rc = 1;
            }
        };
        if (threaded) { cnt.inc("ops_from_second_thread"); std::thread t(body); t.join(); }
        else body();
        g_t_exec += wall_now() - t0x;
        // an in-contract call on a writable file must do what it was asked to (the round-trip properties presuppose that values can be assigned)
        if (rc == 1 && !must_succeed.empty() && is_open && mode == 0 && !blind) { cnt.inc("in_contract_call_threw"); fail(must_succeed, "an in-contract call threw instead of doing what it was asked to (" + arg_class + ")"); }
        if (ro_guard && is_open && mode == 1) { arr = s_arr; dims = s_dims; prop = s_prop; frame = s_frame; }   // nothing can have changed on a ReadOnly file (checked below)
        evh.u64((uint64_t) rc); evh.u64(fileless);
        cnt.inc(std::string("op.") + op_name(op.kind) + (rc == 0 ? ".ok" : rc == 1 ? ".threw" : ".skipped"));
        if (g_trace > 0) printf("  op#%zu %s -> %s [%s] session=%d mode=%s clock=%lld\n", i, op_to_line(op).c_str(), rc == 0 ? "ok" : rc == 1 ? "threw" : "skipped", arg_class.c_str(), session, mode ? "RO" : "RW", (long long) clock_now());
        triples.insert(mix3((uint64_t) op.kind, (uint64_t) rc, (uint64_t) mode * 4 + (flush_valid ? 2 : 0) + (is_open ? 1 : 0)));
        if (failed()) break;
        if (op_modifies(op.kind) && rc != 2) flush_valid = false;
        after_op(*this, op, rc);
        evh.u64(disk_event_hash());
        if (have_last) evh.u64(node_hash(last));
    }
    if (!failed() && is_open) { cur = (int) plan.ops.size(); close_file(false, 0); }
    if (twin_safe && have_last && !failed_any()) disk_write_all(dir + (blind ? "/final.unobserved.txt" : "/final.observed.txt"), render(last));
    cnt.inc("sim_seconds", (uint64_t) (clock_now() > sim_start ? clock_now() - sim_start : 0));
    if (getenv("NIXSIM_PROF")) fprintf(stderr, "PROF obs=%.2f models=%.2f live=%.2f exec(incl. reopen obs)=%.2f\n", g_t_obs, g_t_models, g_t_live, g_t_exec);
}

// ---------------------------------------------------------------------------------------------
// session operations

static int use_handle(World &w, Kept &k, int action, bool &threw_all) {
    // returns number of calls made; threw_all stays true only if every call threw
    int calls = 0;
    auto call = [&](const std::function<void()> &fn) {
        calls++;
        try { fn(); threw_all = false; } catch (const std::exception &) { }
    };
    switch (k.kind) {
        case 0: call([&] { (void) k.block.name(); }); if (action & 1) call([&] { k.block.definition("x"); }); if (action & 2) call([&] { (void) k.block.dataArrayCount(); }); break;
        case 1: call([&] { (void) k.array.dataExtent(); }); if (action & 1) call([&] { k.array.label("x"); });
                if (action & 2) call([&] { std::vector<double> v; k.array.getData(v); }); if (action & 4) call([&] { (void) k.array.dimensionCount(); }); break;
        case 2: call([&] { (void) k.frame.rows(); }); if (action & 1) call([&] { k.frame.rows(3); }); if (action & 2) call([&] { (void) k.frame.columns(); }); break;
        case 3: call([&] { (void) k.tag.position(); }); if (action & 1) call([&] { k.tag.position({1.0}); }); if (action & 2) call([&] { (void) k.tag.referenceCount(); }); break;
        case 4: call([&] { (void) k.mtag.units(); }); if (action & 1) call([&] { k.mtag.definition("x"); }); if (action & 2) call([&] { (void) k.mtag.positions(); }); break;
        case 5: call([&] { (void) k.group.name(); }); if (action & 1) call([&] { k.group.type("x"); }); if (action & 2) call([&] { (void) k.group.dataArrayCount(); }); break;
        case 6: call([&] { (void) k.source.name(); }); if (action & 1) call([&] { k.source.createSource("zz", "t"); }); if (action & 2) call([&] { (void) k.source.sourceCount(); }); break;
        case 7: call([&] { (void) k.section.name(); }); if (action & 1) call([&] { k.section.createProperty("zz", Variant(1.0)); }); if (action & 2) call([&] { (void) k.section.propertyCount(); }); break;
        case 8: call([&] { (void) k.property.values(); }); if (action & 1) call([&] { k.property.unit("mV"); }); if (action & 2) call([&] { (void) k.property.name(); }); break;
        case 9: call([&] { (void) k.feature.linkType(); }); if (action & 1) call([&] { k.feature.linkType(LinkType::Untagged); }); if (action & 2) call([&] { (void) k.feature.data(); }); break;
        case 10: // dimensionType()/index() of a descriptor handle are in-memory values; use accessors that go to the file
                 call([&] { DimensionType t = k.dim.dimensionType(); if (t == DimensionType::Sample) (void) k.dim.asSampledDimension().samplingInterval(); else if (t == DimensionType::Range) (void) k.dim.asRangeDimension().ticks(); else if (t == DimensionType::Set) (void) k.dim.asSetDimension().labels(); else (void) k.dim.asDataFrameDimension().columnIndex(); });
                 if (action & 1) call([&] { DimensionType t = k.dim.dimensionType(); if (t == DimensionType::Sample) k.dim.asSampledDimension().label("x"); else if (t == DimensionType::Range) k.dim.asRangeDimension().label("x"); else if (t == DimensionType::Set) k.dim.asSetDimension().label("x"); else throw std::runtime_error("frame dim"); });
                 break;
        case 11: call([&] { std::vector<double> v; k.view->getData(v); }); break;   // dataExtent() of a view is its in-memory window: not a file access
        case 12: call([&] { (void) k.file.blockCount(); }); if (action & 1) call([&] { k.file.createBlock("zz", "t"); }); if (action & 2) call([&] { (void) k.file.id(); }); break;
        default: break;
    }
    (void) w;
    return calls;
}

int World::exec_session(const Op &op) {
    if (twin_safe && (op.kind == OP_kill || op.kind == OP_drop || op.kind == OP_flush_fault || op.kind == OP_close_fault || op.kind == OP_use_stale || op.kind == OP_keep)) return 2;
    if (blind && op.kind == OP_reopen) {
        // the unobserved twin: close and reopen like the observed one, read nothing back - except after the plan's final restart
        if (!is_open) return 2;
        int m = op.a[0] & 1, via = op.a[1] & 1;
        close_file(false, 0);
        if (failed()) return 0;
        clock_jump(*this, op.a[2]);
        if (via) {
            std::string np = dir + "/f" + std::to_string(++file_gen) + ".nix";
            if (!disk_copy(path, np)) { fail("C02.restart-equal", "harness: snapshot copy failed"); return 0; }
            disk_remove(path); path = np;
        }
        arg_class = std::string(m ? "RO" : "RW") + (via ? ",snapshot" : ",same-path") + ",unobserved-history";
        if (!open_file(m, false)) { fail("C02.restart-equal", "reopening the closed file (" + arg_class + ") failed"); return 0; }
        if (cur == (int) plan.ops.size() - 1) { ObsOpts o; last = observe(f, o, nullptr, &getters); have_last = true; cnt.inc("restart.unobserved_history_final"); }
        return 0;
    }
    switch (op.kind) {
    case OP_clock: clock_jump(*this, op.a[0]); return 0;
    case OP_flush: {
        if (!is_open) return 2;
        bool ok = false;
        try { ok = f.flush(); } catch (const std::exception &e) { fail("C11.progress", std::string("flush() threw without any injected fault: ") + e.what()); return 1; }
        if (!ok) { fail("C11.progress", "flush() returned false without any injected fault"); return 0; }
        if (mode == 0) { flush_valid = true; flush_doc = last; }
        cnt.inc("flush.ok");
        return 0;
    }
    case OP_flush_fault: {
        if (!is_open || mode != 0) return 2;
        FaultKind k = (FaultKind) (1 + ((unsigned) op.a[0]) % 4);
        bool persistent = (op.a[2] & 1) != 0 && (k == F_EIO || k == F_ENOSPC);      // the disk stays full / broken for the rest of the call
        disk_arm_fault(k, ((unsigned) op.a[1]) % 24, persistent);
        bool ok = false, threw = false;
        try { ok = f.flush(); } catch (const std::exception &) { threw = true; }
        bool fired = disk_disarm_fault();
        cnt.inc(std::string("fault.flush.") + (k == F_EIO ? "eio" : k == F_ENOSPC ? "enospc" : k == F_SHORT ? "short" : "eintr") + (fired ? ".fired" : ".configured_only"));
        arg_class = std::string("fault=") + std::to_string((int) k) + (fired ? ",fired" : ",not-fired") + (persistent ? ",persistent" : "");
        if (fired && persistent) cnt.inc("fault.flush.persistent");
        if (ok && !threw) {
            // flush() claims success: the image on disk must be complete right now (C11.flush-honest)
            cnt.inc("flush.ok");
            if (fired) cnt.inc("fault.flush.reported_true");
            std::string snap = dir + "/ff" + std::to_string(++file_gen) + ".nix";
            disk_copy(path, snap);
            std::string where;
            try {
                File g = File::open(snap, FileMode::ReadOnly);
                ObsOpts o; Node d = observe(g, o, nullptr, &getters);
                g.close();
                if (!node_equal(last, d, where)) fail("C11.flush-honest", "flush() returned true (injected fault " + std::to_string((int) k) + (fired ? " fired" : " not reached") + ") but the image on disk differs at " + where);
            } catch (const std::exception &e) {
                fail("C11.flush-honest", std::string("flush() returned true but the image on disk cannot be opened: ") + e.what());
            }
            disk_remove(snap);
            if (!failed()) { flush_valid = true; flush_doc = last; }
            return 0;
        }
        // flush reported the failure: nothing is claimed; the session is abandoned and the run ends here
        cnt.inc("fault.flush.reported_false");
        try { f.close(); } catch (const std::exception &) {}
        is_open = false; f = nix::none; ro_tracking = false;
        stop = true;
        return 1;
    }
    case OP_close_fault: {
        // a write-class call issued inside close() meets a disk error (EIO, full disk) or a transparent perturbation (short write, EINTR).
        // close() may report the failure by throwing - then nothing is claimed and the session is abandoned - but once it has *returned*
        // the file on disk must be complete (C11's first clause is not conditional on the disk being kind)
        if (!is_open || mode != 0 || f2_open) return 2;
        FaultKind k = (FaultKind) (1 + ((unsigned) op.a[0]) % 4);
        Node before = last;
        live.clear();
        flush_valid = false;
        if (op.a[2] & 1) gather_handles(op.sub);
        bool sticky = (op.a[3] & 1) != 0;      // the disk stays full / broken for the rest of the call
        disk_arm_fault(k, ((unsigned) op.a[1]) % 16, sticky);
        bool threw = false;
        try { f.close(); } catch (const std::exception &) { threw = true; }
        bool fired = disk_disarm_fault();
        const char *kn = k == F_EIO ? "eio" : k == F_ENOSPC ? "enospc" : k == F_SHORT ? "short" : "eintr";
        cnt.inc(std::string("fault.close.") + kn + (fired ? ".fired" : ".configured_only"));
        arg_class = std::string("fault=") + std::to_string((int) k) + (fired ? ",fired" : ",not-fired") + (sticky && (k == F_EIO || k == F_ENOSPC) ? ",persistent" : "");
        if (fired && sticky && (k == F_EIO || k == F_ENOSPC)) cnt.inc("fault.close.persistent");
        is_open = false; f = nix::none; ro_tracking = false;
        if (threw) { cnt.inc("fault.close.reported_by_exception"); stop = true; return 1; }
        if (fired) cnt.inc("fault.close.returned_normally");
        cnt.inc("close");
        // the image as it is now (a copy on a new inode: libhdf5 may still hold the abandoned file)
        std::string snap = dir + "/cf" + std::to_string(++file_gen) + ".nix";
        disk_copy(path, snap);
        bool ok_img = false;
        try {
            File g = File::open(snap, FileMode::ReadOnly);
            ObsOpts o; Node d = observe(g, o, nullptr, &getters);
            g.close();
            std::string where;
            if (!node_equal(before, d, where)) fail("C11.close-honest", std::string("close() returned normally (injected ") + kn + (fired ? " fired" : " not reached") + ") but the file on disk differs from what was written at " + where);
            else ok_img = true;
        } catch (const std::exception &e) {
            fail("C11.close-honest", std::string("close() returned normally (injected ") + kn + (fired ? " fired" : " not reached") + ") but the file on disk cannot be opened: " + e.what());
        }
        if (!ok_img || (fired && (k == F_EIO || k == F_ENOSPC))) { disk_remove(snap); stop = true; return 0; }     // after a real error libhdf5's state for the old file is its own business: the run ends
        disk_remove(path); path = snap;
        if (!open_file(0, false)) { fail("C11.image-complete", "the file cannot be opened ReadWrite after close()"); return 0; }
        last = obs();
        return 0;
    }
    case OP_reopen: {
        if (!is_open) return 2;
        int m = op.a[0] & 1, via = op.a[1] & 1;
        Node before = last;
        flush_valid = false;
        close_file(true, op.sub);
        if (failed()) return 0;
        clock_jump(*this, op.a[2]);
        if (via) {
            std::string np = dir + "/f" + std::to_string(++file_gen) + ".nix";
            if (!disk_copy(path, np)) { fail("C02.restart-equal", "harness: snapshot copy failed"); return 0; }
            disk_remove(path);
            path = np;
            cnt.inc("restart.snapshot");
        } else cnt.inc("restart.same_path");
        next_open_force = (((unsigned) op.a[4]) % 6) == 0;
        arg_class = std::string(m ? "RO" : "RW") + (via ? ",snapshot" : ",same-path") + (next_open_force ? ",Force" : "");
        if ((((unsigned) op.a[3]) % (lane_prop == "C02" ? 3u : 8u)) == 0 && !getenv("NIXSIM_NO_XPROC")) {
            // C02 "in the same or in another process": before this process reopens the file a separate process reads it
            std::string out, want = render(before) + "HASH " + hex64(node_hash(before)) + "\n";
            bool rw = (op.a[3] / 8) % 4 == 0;
            cnt.inc("restart.other_process");
            if (!other_process_observe(path, rw, out)) fail("C02.restart-equal", "a separate reader process died or could not be started on the closed file");
            else if (out.compare(0, 7, "THROWS ") == 0) fail("C02.restart-equal", "a separate process cannot open the closed file (" + std::string(rw ? "ReadWrite" : "ReadOnly") + "): " + out.substr(7, 200));
            else if (out != want) fail("C02.restart-equal", "tree seen by a separate process after close differs from the tree before close at " + first_diff_line(want, out));
            evh.str(out);
            if (failed()) return 0;
        }
        if (!open_file(m, false)) { fail("C02.restart-equal", "reopening the closed file (" + arg_class + ") failed"); models_survive(*this, Node(), "closing the file: it cannot be reopened"); return 0; }
        Node doc = obs();
        if (failed()) return 0;
        std::string where;
        cnt.inc("restart.checked");
        if (!node_equal(before, doc, where)) {
            fail("C02.restart-equal", "tree after reopen (" + arg_class + ") differs from tree before close at " + where);
            // the round-trip properties have their own say about the same restart (an own violation replaces a foreign one)
            models_survive(*this, doc, "closing and reopening the file"); if (!failed()) post_models(doc);
            return 0;
        }
        post_models(doc);
        last = doc;
        return 0;
    }
    case OP_kill: {
        if (!is_open || !flush_valid || mode != 0) return 2;
        int m = op.a[0] & 1;
        std::string snap = dir + "/f" + std::to_string(++file_gen) + ".nix";
        if (!disk_copy(path, snap)) { fail("C11.image-complete", "harness: snapshot copy failed"); return 0; }
        cnt.inc("kill");
        // the killed process never runs close(); let the abandoned writer unwind on the old inode
        std::string old = path;
        close_file(true, op.sub);
        disk_remove(old);
        if (failed()) return 0;
        path = snap;
        clock_jump(*this, op.a[2]);
        arg_class = std::string("kill,") + (m ? "RO" : "RW");
        if ((op.a[1] & 3) == 3) {
            // the image must also be acceptable to Overwrite (on a copy)
            std::string cp = dir + "/ow" + std::to_string(file_gen) + ".nix";
            disk_copy(snap, cp);
            try { File g = File::open(cp, FileMode::Overwrite); if (g.blockCount() != 0 || g.sectionCount() != 0) fail("C09.overwrite-empties", "Overwrite on a flushed image left content"); g.close(); }
            catch (const std::exception &e) { fail("C11.image-complete", std::string("image left by a kill after flush cannot be opened with Overwrite: ") + e.what()); }
            disk_remove(cp);
            if (failed()) return 0;
        }
        if (!open_file(m, false)) { fail("C11.image-complete", "image left by a kill after flush()==true cannot be opened (" + arg_class + ")"); models_survive(*this, Node(), "a kill that followed a successful flush: the file cannot be opened"); return 0; }
        Node doc = obs();
        if (failed()) return 0;
        std::string where;
        cnt.inc("kill.checked");
        if (!node_equal(flush_doc, doc, where)) {
            fail("C11.image-complete", "image left by a kill after flush()==true differs from the state at flush at " + where);
            models_survive(*this, doc, "a kill that followed a successful flush"); if (!failed()) post_models(doc);
            return 0;
        }
        post_models(doc);
        last = doc; flush_valid = false;
        return 0;
    }
    case OP_drop: {
        if (!is_open || f2_open) return 2;
        gather_handles(op.sub);
        std::string old = path;
        Node before = last;
        bool was_ro = mode == 1;
        flush_valid = false;
        live.clear();
        f = nix::none;               // File object destroyed without close(); entity handles keep the backend alive
        is_open = false; ro_tracking = false;
        cnt.inc("drop");
        for (auto &k : kept) { bool all = true; int act = (int) (op.sub & 7); if (k.kind == 8 || k.kind == 2 || k.kind == 3 || k.kind == 10) act &= ~1; use_handle(*this, k, act, all); }
        kept.clear();                // last handles released: backend destructor runs
        int fds = disk_open_fds(old);
        if (fds != 0) { cnt.inc("drop.fd_left_open"); stop = true; return 0; }
        (void) was_ro; (void) before;
        if (!open_file(0, false)) { stop = true; return 0; }
        have_last = false;
        return 0;
    }
    case OP_second_view: {
        // a second File object on the file that is open (the program opens it once more, ReadOnly, while the first session goes on):
        // both objects show one file, now and after later operations made through the first one
        if (!is_open || blind || !have_last) return 2;
        if (!f2_open) {
            try { f2 = File::open(open_path(), FileMode::ReadOnly); f2_open = true; cnt.inc("second_view.opened"); }
            catch (const std::exception &) { f2 = nix::none; return 1; }     // whether a second open is possible at all is libhdf5's business
        }
        ObsOpts o; o.check_lookups = lane_prop == "C03";
        std::vector<std::string> v;
        Node d2 = observe(f2, o, &v, &getters);
        for (size_t i = 0; i < v.size() && i < 4; i++) fail(v[i].substr(0, v[i].find(' ')), v[i] + " (through a second File object on the same file)");
        std::string where;
        cnt.inc("second_view.compared");
        arg_class = "second-file-object";
        if (!failed() && !node_equal(last, d2, where)) fail(lane_prop == "C03" ? "C03.agree-live" : "C02.live-handle", "a second File object opened on the same file shows something else than the first at " + where);
        // the second object stays open until the session ends: File::close() closes every open object of the underlying HDF5 file,
        // also those of another File object in the same process (observed on the unchanged tree; no listed property speaks about it)
        return 0;
    }
    case OP_keep: {
        if (!is_open || !ghosts_allowed) return 2;
        gather_handles(op.sub);
        return 0;
    }
    case OP_use_stale: {
        if (kept.empty()) return 2;
        Kept &k = kept[((unsigned) op.a[0]) % kept.size()];
        bool closed = (k.session != session) || !is_open;
        uint64_t calls0 = 0;
        std::string p = path;
        calls0 = disk_counters().preads + disk_counters().pwrites + disk_counters().opens + disk_counters().ftruncates;
        bool threw_all = true;
        int action = op.a[1];
        // on a live handle only setters that touch no modelled state are used
        if (!closed && !k.deleted && (k.kind == 8 || k.kind == 2 || k.kind == 3 || k.kind == 10)) action &= ~1;
        int n = use_handle(*this, k, action, threw_all);
        cnt.inc("stale.calls", (uint64_t) n);
        arg_class = "handle-kind=" + std::to_string(k.kind) + (closed ? ",closed" : k.deleted ? ",deleted" : ",live");
        if (closed && k.kind != 11 + 100) {
            cnt.inc("stale.closed_calls", (uint64_t) n);
            uint64_t calls1 = disk_counters().preads + disk_counters().pwrites + disk_counters().opens + disk_counters().ftruncates;
            if (!threw_all) { fail("C11.stale-throws", "a call on a handle (kind " + std::to_string(k.kind) + ") obtained before close() returned normally instead of throwing"); return 0; }
            if (calls1 != calls0) { fail("C11.stale-throws", "a call on a handle obtained before close() touched the disk"); return 0; }
        }
        return closed ? 1 : 0;
    }
    default: return 2;
    }
}

} // namespace sim
