// Cache knob: nix always opens with H5P_DEFAULT; the harness swaps in a per-run
// file-access list (chunk cache size, sieve buffer) through -Wl,--wrap.
#include "sim.hpp"
#include <hdf5.h>

extern "C" hid_t __real_H5Fopen(const char *name, unsigned flags, hid_t fapl);
extern "C" hid_t __real_H5Fcreate(const char *name, unsigned flags, hid_t fcpl, hid_t fapl);

namespace {
int g_cache_mode = 0, g_sieve_mode = 0;
uint64_t g_applied = 0;

// the knob is applied on top of whatever access list the library passes (a copy of it; H5P_DEFAULT today)
hid_t make_fapl(hid_t given) {
    if (g_cache_mode == 0 && g_sieve_mode == 0) return given;
    hid_t fapl = given == H5P_DEFAULT ? H5Pcreate(H5P_FILE_ACCESS) : H5Pcopy(given);
    if (fapl < 0) return given;
    if (g_cache_mode == 1) H5Pset_cache(fapl, 0, 0, 0, 0.75);
    if (g_cache_mode == 2) H5Pset_cache(fapl, 0, 13, 64 * 1024, 0.75);
    if (g_sieve_mode == 1) H5Pset_sieve_buf_size(fapl, 0);
    g_applied++;
    return fapl;
}
}

extern "C" hid_t __wrap_H5Fopen(const char *name, unsigned flags, hid_t fapl) {
    hid_t mine = make_fapl(fapl);
    hid_t r = __real_H5Fopen(name, flags, mine);
    if (mine != fapl) H5Pclose(mine);
    return r;
}
extern "C" hid_t __wrap_H5Fcreate(const char *name, unsigned flags, hid_t fcpl, hid_t fapl) {
    hid_t mine = make_fapl(fapl);
    hid_t r = __real_H5Fcreate(name, flags, fcpl, mine);
    if (mine != fapl) H5Pclose(mine);
    return r;
}

namespace sim {
void h5knob_set(int c, int s) { g_cache_mode = c; g_sieve_mode = s; }
uint64_t h5knob_applied() { return g_applied; }
void h5_quiet() { H5Eset_auto2(H5E_DEFAULT, NULL, NULL); }
void h5_warm() {
    H5open();
    h5_quiet();
    hid_t p = H5Pcreate(H5P_FILE_ACCESS); if (p >= 0) H5Pclose(p);
    hid_t s = H5Screate(H5S_SCALAR); if (s >= 0) H5Sclose(s);
    hid_t t = H5Tcopy(H5T_C_S1); if (t >= 0) H5Tclose(t);
}
}

// ---- exception tracing (development / replay aid): NIXSIM_TRACE=1 prints every exception thrown by nix code
#include <typeinfo>
#include <exception>
#include <cstdio>
#include <cstdlib>
extern "C" void __real___cxa_throw(void *thrown, std::type_info *tinfo, void (*dest)(void *)) __attribute__((noreturn));
namespace sim { int g_trace = -1; }
extern "C" void __wrap___cxa_throw(void *thrown, std::type_info *tinfo, void (*dest)(void *)) {
    if (sim::g_trace < 0) sim::g_trace = getenv("NIXSIM_TRACE") ? 1 : 0;
    if (sim::g_trace) {
        void *adj = thrown;
        const char *what = "";
        if (typeid(std::exception).__do_catch(tinfo, &adj, 1)) what = static_cast<std::exception *>(adj)->what();
        fprintf(stdout, "    throw %s: %s\n", tinfo->name(), what);
    }
    __real___cxa_throw(thrown, tinfo, dest);
}
