// Out-of-contract calls (C16): each either returns or throws a std::exception; the
// sanitizers and the crash monitor are the oracle.  None of these calls is expected to
// modify the file; if one does, the models of the touched entity are dropped.
#include "engine.hpp"
#include <nix/util/dataAccess.hpp>
#include <cstring>

using namespace nix;

namespace sim {

#define ATTEMPT(stmt) do { calls++; try { stmt; } catch (const std::exception &) { threw++; } } while (0)

static NDSize nd(std::initializer_list<ndsize_t> l) { return NDSize(l); }

static void read_view(const DataView &v) {
    NDSize e = v.dataExtent();
    if (!e.size() || e.nelms() == 0 || e.nelms() > 100000) return;
    DataType dt = v.dataType();
    if (dt == DataType::String) { std::vector<std::string> s((size_t) e.nelms()); v.getData(dt, s.data(), e, NDSize(e.size(), 0)); }
    else { std::vector<double> d((size_t) e.nelms()); v.getData(DataType::Double, d.data(), e, NDSize(e.size(), 0)); }
}

int World::exec_abuse(const Op &op) {
    const int *a = op.a;
    Rng r(op.sub);
    int calls = 0, threw = 0;
    int sel = ((unsigned) a[2]) % 14;
    switch (op.kind) {
    case OP_abuse_array: {
        DataArray x = arr_at(a[0], a[1]); if (!x) return 2;
        NDSize ext = x.dataExtent();
        size_t rank = ext.size();
        DataType dt = x.dataType();
        arg_class = "sel=" + std::to_string(sel) + ",dtype=" + dtype_name(dt);
        std::vector<double> buf(4096); std::vector<std::string> sbuf(64);
        void *p = dt == DataType::String ? (void *) sbuf.data() : (void *) buf.data();
        DataType rt = dt == DataType::String ? DataType::String : DataType::Double;
        switch (sel) {
        case 0: ATTEMPT(x.getData(rt, p, NDSize(rank + 1, 1), NDSize(rank + 1, 0))); break;            // wrong rank (more)
        case 1: if (rank > 1) ATTEMPT(x.getData(rt, p, NDSize(rank - 1, 1), NDSize(rank - 1, 0))); break; // wrong rank (fewer)
        case 2: { NDSize c(rank, 1), o(rank, 0); if (rank) o[r.below(rank)] = ext[0] + 5; ATTEMPT(x.getData(rt, p, c, o)); break; }   // offset outside
        case 3: { NDSize c(rank, 1), o(rank, 0); if (rank) { size_t d = r.below(rank); c[d] = ext[d] + 3; } if (c.nelms() <= 4096 && (dt != DataType::String || c.nelms() <= 64)) ATTEMPT(x.getData(rt, p, c, o)); break; }   // count outside
        case 4: ATTEMPT(x.getData(rt, p, NDSize(), NDSize())); break;                                    // empty count/offset
        case 5: ATTEMPT((void) x.getDimension(0)); ATTEMPT((void) x.getDimension(x.dimensionCount() + 1 + r.below(3))); break;
        case 6: { ATTEMPT(DataView(x, NDSize(rank, 1), NDSize(rank + 1, 0))); ATTEMPT(DataView(x, ext + NDSize(rank, 1), NDSize(rank, 0)));
                  if (rank && ext.nelms() > 0) { calls++; try { DataView v(x, ext, NDSize(rank, 0)); NDSize c = ext; c[0] += 1; if (c.nelms() <= 4096 && dt != DataType::String) v.getData(DataType::Double, buf.data(), c, NDSize(rank, 0)); NDSize o(rank, 0); o[0] = ext[0]; v.getData(rt, p, NDSize(rank, 1), o); } catch (const std::exception &) { threw++; } }
                  break; }
        case 7: { std::vector<double> v; ATTEMPT(x.getData(v)); std::vector<std::string> s; ATTEMPT(x.getData(s)); std::vector<int8_t> b; ATTEMPT(x.getData(b)); break; }   // whole read into 1-D vectors of any type
        case 8: { // calibrated read requested in an unsuitable type
                  if (rank && ext.nelms() > 0 && ext.nelms() <= 64 && dt != DataType::String) { std::vector<int8_t> b((size_t) ext.nelms() * 8); ATTEMPT(x.getData(DataType::Int8, b.data(), ext, NDSize(rank, 0))); ATTEMPT(x.getData(DataType::Bool, b.data(), ext, NDSize(rank, 0))); }
                  break; }
        case 9: { std::vector<double> st, en; size_t k = rank ? r.below(rank + 2) : 0; for (size_t i = 0; i < k; i++) { st.push_back((double) r.range(-1, 3)); en.push_back(st.back() + (double) r.range(-1, 4)); }
                  calls++; try { DataView v = util::dataSlice(x, st, en); read_view(v); } catch (const std::exception &) { threw++; }
                  break; }
        case 10: { std::vector<double> st(rank, 0.0), en(rank, 1.0); std::vector<std::string> un(rank ? rank - 1 : 0, "ms");
                  calls++; try { DataView v = util::dataSlice(x, st, en, un, RangeMatch::Inclusive); read_view(v); } catch (const std::exception &) { threw++; }
                  ATTEMPT((void) util::positionInData(x, NDSize(rank + 1, 0))); ATTEMPT((void) util::positionAndExtentInData(x, NDSize(rank, 0), NDSize(rank ? rank - 1 : 0, 1)));
                  break; }
        case 11: case 12: {
            // reads of the whole array (raw and, when a polynomial / origin is set, calibrated) into exactly-sized heap buffers of every
            // element type: a byte written past the requested elements lands in a red zone
            if (!rank || ext.nelms() == 0 || ext.nelms() > 512 || dt == DataType::String) break;
            // half of the time the array is given a calibration first (unless it has one), so that the reads below take the calibrated path
            if (mode == 0 && (a[3] & 1) && x.polynomCoefficients().empty() && !x.expansionOrigin()) { ATTEMPT(x.polynomCoefficients(std::vector<double>{0.5, 2.0})); if (a[3] & 2) ATTEMPT(x.expansionOrigin(1.0)); arr.erase(x.id()); cnt.inc("abuse.calibration_planted"); }
            static const DataType ts[] = {DataType::Bool, DataType::Int8, DataType::Int16, DataType::Int32, DataType::Int64, DataType::UInt8, DataType::UInt16, DataType::UInt32, DataType::UInt64, DataType::Float, DataType::Double};
            for (DataType t : ts) {
                std::unique_ptr<char[]> hb(new char[(size_t) ext.nelms() * data_type_to_size(t)]);
                ATTEMPT(x.getData(t, hb.get(), ext, NDSize(rank, 0)));
                if (sel == 12) ATTEMPT(x.getDataDirect(t, hb.get(), ext, NDSize(rank, 0)));
            }
            break; }
        default: { ATTEMPT((void) x.getDimension((ndsize_t) -1)); std::vector<double> v; ATTEMPT(x.getData(v, nd({0}), nd({0}))); ATTEMPT(x.getData(v, nd({(ndsize_t) 100000}), nd({0}))); break; }
        }
        break;
    }
    case OP_abuse_dims: {
        DataArray x = arr_at(a[0], a[1]); if (!x) return 2;
        // a data-frame descriptor whose stored default column is the first index past the frame's last column (the append accepts it
        // or refuses it; if it is stored, every getter that falls back to the default meets it)
        bool planted = false;
        if (mode == 0 && (sel % 4) == 0) { DataFrame fr = frame_at(a[0], a[2]); if (fr) { unsigned nc = 0; try { nc = (unsigned) fr.columns().size(); } catch (const std::exception &) {}
            ndsize_t before = x.dimensionCount(); ATTEMPT(x.appendDataFrameDimension(fr, nc)); planted = x.dimensionCount() > before; if (planted) { cnt.inc("abuse.frame_dimension_default_past_last_column"); dims.erase(x.id()); } } }
        ndsize_t n = x.dimensionCount(); if (!n) return 2;
        Dimension d;
        try { d = x.getDimension(planted ? n : 1 + r.below(n)); } catch (const std::exception &) { return 1; }
        DimensionType t = d.dimensionType();
        arg_class = "sel=" + std::to_string(sel) + ",kind=" + std::to_string((int) t);
        // conversions to the wrong descriptor kind
        ATTEMPT({ RangeDimension rd = d.asRangeDimension(); (void) rd.ticks(); });
        ATTEMPT({ SampledDimension sd = d.asSampledDimension(); (void) sd.samplingInterval(); });
        ATTEMPT({ SetDimension sd = d.asSetDimension(); (void) sd.labels(); });
        ATTEMPT({ DataFrameDimension fd = d.asDataFrameDimension(); (void) fd.columnIndex(); });
        if (t == DimensionType::Range) {
            RangeDimension rd = d.asRangeDimension();
            size_t nt = 0; try { nt = rd.ticks().size(); } catch (const std::exception &) {}
            ATTEMPT((void) rd.tickAt(nt)); ATTEMPT((void) rd.tickAt(nt + 100));
            ATTEMPT((void) rd.axis(nt + 1, 0)); ATTEMPT((void) rd.axis(1, nt)); ATTEMPT((void) rd.axis(0, 0));
            ATTEMPT((void) rd.indexOf(1e300, PositionMatch::LessOrEqual)); ATTEMPT((void) rd.indexOf(-1e300, PositionMatch::GreaterOrEqual));
            ATTEMPT({ std::vector<double> tk = rd.ticks(); (void) rd.indexOf(2.0, 1.0, tk, RangeMatch::Inclusive); });
            ATTEMPT((void) rd.indexOf({0.0, 1.0}, {1.0}, RangeMatch::Exclusive));
            // an empty tick vector handed in by the caller
            ATTEMPT((void) rd.indexOf(0.0, 1.0, std::vector<double>(), RangeMatch::Inclusive)); ATTEMPT((void) rd.indexOf(-5.0, -4.0, std::vector<double>(), RangeMatch::Exclusive));
            ATTEMPT((void) rd.indexOf(1e9, 2e9, std::vector<double>(), RangeMatch::Inclusive));
            ATTEMPT((void) rd.positionInRange(0.5));
        } else if (t == DimensionType::Sample) {
            SampledDimension sd = d.asSampledDimension();
            ATTEMPT((void) sd.positionAt((ndsize_t) 1 << 60)); ATTEMPT((void) sd.axis(0, 0)); ATTEMPT((void) sd.axis(3, (ndsize_t) 1 << 62));
            ATTEMPT((void) sd.indexOf(-1e300, PositionMatch::LessOrEqual)); ATTEMPT((void) sd.indexOf(1e300, PositionMatch::GreaterOrEqual));
            ATTEMPT((void) sd.indexOf(5.0, 1.0, RangeMatch::Inclusive));
            ATTEMPT((void) sd.indexOf({0.0, 1.0, 2.0}, {1.0}, RangeMatch::Exclusive));
        } else if (t == DimensionType::Set) {
            SetDimension sd = d.asSetDimension();
            ATTEMPT((void) sd.indexOf(-3.0, PositionMatch::Equal)); ATTEMPT((void) sd.indexOf(1e18, PositionMatch::LessOrEqual));
            ATTEMPT((void) sd.indexOf(4.0, 1.0, RangeMatch::Inclusive));
        } else if (t == DimensionType::DataFrame) {
            DataFrameDimension fd = d.asDataFrameDimension();
            // every getter with the stored default column (which may itself be out of range), with the first index past the last
            // column, the one after it, and a far one
            unsigned ncol = 0; try { DataFrame fr = fd.data(); if (fr) ncol = (unsigned) fr.columns().size(); } catch (const std::exception &) {}
            ATTEMPT((void) fd.label()); ATTEMPT((void) fd.unit()); ATTEMPT((void) fd.columnDataType());
            ATTEMPT({ std::vector<double> tk; fd.ticks(tk, boost::optional<unsigned>(), true); }); ATTEMPT({ std::vector<std::string> tk; fd.ticks(tk, boost::optional<unsigned>(), true); });
            for (unsigned ci : {ncol, ncol + 1}) {
                ATTEMPT((void) fd.label(boost::optional<unsigned>(ci))); ATTEMPT((void) fd.unit(boost::optional<unsigned>(ci))); ATTEMPT((void) fd.columnDataType(boost::optional<unsigned>(ci)));
                ATTEMPT({ std::vector<double> tk; fd.ticks(tk, boost::optional<unsigned>(ci), true); });
            }
            ATTEMPT((void) fd.size()); ATTEMPT((void) fd.label(boost::optional<unsigned>(99))); ATTEMPT((void) fd.unit(boost::optional<unsigned>(99)));
            ATTEMPT((void) fd.columnDataType(boost::optional<unsigned>(99)));
            ATTEMPT({ std::vector<double> tk; fd.ticks(tk, boost::optional<unsigned>(99), true); });
            ATTEMPT({ std::vector<double> tk; fd.ticks(tk, boost::optional<unsigned>(), true, 1000); });
            ATTEMPT((void) fd.indexOf(1e9, PositionMatch::Equal));
        }
        break;
    }
    case OP_abuse_tag: {
        arg_class = "sel=" + std::to_string(sel);
        if (a[3] & 1) {
            MultiTag t = mtag_at(a[0], a[1]); if (!t) return 2;
            ndsize_t nr = t.referenceCount(), nf = t.featureCount(), np = 0;
            try { np = t.positionCount(); } catch (const std::exception &) {}
            ndsize_t pi = sel < 4 ? np + r.below(3) : (np ? r.below(np) : 0);
            ndsize_t ri = (sel >= 4 && sel < 8) ? nr + r.below(3) : (nr ? r.below(nr) : 0);
            calls++; try { DataView v = t.taggedData((size_t) pi, (size_t) ri); read_view(v); } catch (const std::exception &) { threw++; }
            calls++; try { std::vector<ndsize_t> idx; idx.push_back(pi); idx.push_back(0); idx.push_back(np + 7); std::vector<DataView> vs = t.taggedData(idx, ri); for (auto &v : vs) read_view(v); } catch (const std::exception &) { threw++; }
            ndsize_t fi = sel >= 8 ? nf + r.below(3) : (nf ? r.below(nf) : 0);
            calls++; try { DataView v = t.featureData((size_t) pi, (size_t) fi); read_view(v); } catch (const std::exception &) { threw++; }
            ATTEMPT((void) t.getReference((size_t) (nr + 2))); ATTEMPT((void) t.getFeature((size_t) (nf + 2)));
            ATTEMPT((void) t.taggedData((size_t) 0, std::string("no-such-array")));
        } else {
            Tag t = tag_at(a[0], a[1]); if (!t) return 2;
            ndsize_t nr = t.referenceCount(), nf = t.featureCount();
            ndsize_t ri = sel < 4 ? nr + r.below(3) : (nr ? r.below(nr) : 0);
            calls++; try { DataView v = t.taggedData((size_t) ri); read_view(v); } catch (const std::exception &) { threw++; }
            calls++; try { DataView v = util::taggedData(t, ri, RangeMatch::Inclusive); read_view(v); } catch (const std::exception &) { threw++; }
            ndsize_t fi = sel >= 8 ? nf + r.below(3) : (nf ? r.below(nf) : 0);
            calls++; try { DataView v = t.featureData((size_t) fi); read_view(v); } catch (const std::exception &) { threw++; }
            ATTEMPT((void) t.getReference((size_t) (nr + 2))); ATTEMPT((void) t.getFeature((ndsize_t) (nf + 2)));
            ATTEMPT((void) t.taggedData(std::string("no-such-array"))); ATTEMPT((void) t.featureData(std::string("no-such-feature")));
            ATTEMPT((void) t.hasFeature(std::string("other")));
            if (nr) { DataArray ref = t.getReference((size_t) 0); NDSize o, c; ATTEMPT(util::getOffsetAndCount(t, ref, o, c)); ATTEMPT(util::getOffsetAndCount(t, ref, o, c, RangeMatch::Exclusive)); }
        }
        break;
    }
    case OP_abuse_tagging: {
        // A complete tagging set-up built in one step and then queried: a data array of rank 1-3 with a random mix of dimension
        // descriptors (or too few of them), a positions array that is 1-D or n x k with k below, at or above the data rank, extents
        // of the same or no shape, features of every link type; then region retrieval for every position index including one past
        // the end.  Nothing is predicted: every call returns or throws, the sanitizers watch.
        Block b = blk(a[0]); if (!b) return 2;
        std::string base = "tg" + std::to_string(session) + "_" + std::to_string(cur) + "_" + std::to_string(r.below(1000));
        size_t rank = (size_t) r.range(1, 3);
        NDSize shape(rank, 1); for (size_t d = 0; d < rank; d++) shape[d] = (ndsize_t) r.range(1, 5);
        arg_class = "rank=" + std::to_string(rank);
        DataArray data, pos, ext, fa;
        ATTEMPT(data = b.createDataArray(base + "_d", "t", r.chance(1, 4) ? DataType::Int16 : DataType::Double, shape));
        if (!data) break;
        size_t ndesc = r.chance(1, 5) ? (size_t) r.below(rank + 1) : rank;
        for (size_t d = 0; d < ndesc; d++) {
            int k = r.range(0, 3);
            if (k == 0) ATTEMPT(data.appendSampledDimension(r.chance(1, 2) ? 1.0 : 0.25, "t", r.chance(1, 2) ? "ms" : "", r.chance(1, 3) ? 1.0 : 0.0));
            else if (k == 1) { std::vector<double> tk; double v = (double) r.range(-1, 1); size_t nt = r.chance(1, 4) ? (size_t) r.range(1, 6) : (size_t) shape[d]; for (size_t i = 0; i < nt; i++) { tk.push_back(v); v += 0.5 * (double) r.range(1, 3); } ATTEMPT(data.appendRangeDimension(tk, "x", r.chance(1, 2) ? "mV" : "")); }
            else if (k == 2) { std::vector<std::string> l; size_t nl = r.chance(1, 3) ? (size_t) r.range(0, 6) : (size_t) shape[d]; for (size_t i = 0; i < nl; i++) l.push_back("l" + std::to_string(i)); ATTEMPT(data.appendSetDimension(l)); }
            else ATTEMPT(data.appendSetDimension());
        }
        if (shape.nelms() <= 200) { std::vector<double> v((size_t) shape.nelms()); for (size_t i = 0; i < v.size(); i++) v[i] = (double) (i % 50); ATTEMPT(data.setData(DataType::Double, v.data(), shape, NDSize(rank, 0))); }
        size_t n = (size_t) r.range(1, 4);
        int kvar = r.range(0, 5);
        size_t k = kvar == 0 ? 0 : kvar == 1 ? 1 : kvar == 2 ? (rank > 1 ? rank - 1 : 1) : kvar == 3 ? rank + 1 : rank;     // 0 = 1-D positions
        arg_class += ",pos=" + (k == 0 ? std::string("1d") : "nx" + std::to_string(k));
        NDSize pshape = k == 0 ? nd({(ndsize_t) n}) : nd({(ndsize_t) n, (ndsize_t) k});
        std::vector<double> pv((size_t) pshape.nelms()), ev((size_t) pshape.nelms());
        for (auto &x : pv) x = 0.5 * (double) r.range(-2, 8);
        for (auto &x : ev) x = 0.5 * (double) r.range(0, 6);
        ATTEMPT(pos = b.createDataArray(base + "_p", "t", DataType::Double, pshape));
        if (pos) ATTEMPT(pos.setData(DataType::Double, pv.data(), pshape, NDSize(pshape.size(), 0)));
        int evar = r.range(0, 3);
        if (evar) {
            NDSize eshape = pshape;
            if (evar == 3 && eshape.size()) eshape[eshape.size() - 1] += 1;      // mismatching shape: the setter is expected to refuse
            ATTEMPT(ext = b.createDataArray(base + "_e", "t", DataType::Double, eshape));
            if (ext && evar != 3) ATTEMPT(ext.setData(DataType::Double, ev.data(), eshape, NDSize(eshape.size(), 0)));
        }
        NDSize fshape = shape; if (r.chance(1, 2)) { if (r.chance(1, 2)) fshape = nd({(ndsize_t) n, (ndsize_t) 3}); else fshape = nd({(ndsize_t) r.range(1, 3)}); }
        ATTEMPT(fa = b.createDataArray(base + "_f", "t", DataType::Double, fshape));
        if (fa && r.chance(1, 2)) for (size_t d = 0; d < fshape.size(); d++) ATTEMPT(fa.appendSampledDimension(1.0));
        MultiTag mt;
        if (pos) ATTEMPT(mt = b.createMultiTag(base + "_m", "t", pos));
        if (mt) {
            if (ext) ATTEMPT(mt.extents(ext));
            ATTEMPT(mt.addReference(data));
            if (r.chance(1, 3)) { std::vector<std::string> u; size_t nu = (size_t) r.range(0, (int) rank + 1); for (size_t i = 0; i < nu; i++) u.push_back(r.chance(1, 2) ? "ms" : "mV"); ATTEMPT(mt.units(u)); }
            if (fa) { ATTEMPT(mt.createFeature(fa, LinkType::Tagged)); ATTEMPT(mt.createFeature(fa, LinkType::Indexed)); ATTEMPT(mt.createFeature(fa, LinkType::Untagged)); }
            for (size_t i = 0; i <= n; i++) {
                calls++; try { DataView v = mt.taggedData(i, (size_t) 0); read_view(v); } catch (const std::exception &) { threw++; }
                calls++; try { DataView v = util::taggedData(mt, (ndsize_t) i, (ndsize_t) 0, RangeMatch::Exclusive); read_view(v); } catch (const std::exception &) { threw++; }
                for (size_t fi = 0; fi < 3; fi++) { calls++; try { DataView v = mt.featureData(i, fi); read_view(v); } catch (const std::exception &) { threw++; } }
            }
            calls++; try { std::vector<ndsize_t> idx; for (size_t i = 0; i < n; i++) idx.push_back(i); std::vector<DataView> vs = mt.taggedData(idx, (size_t) 0); for (auto &v : vs) read_view(v); } catch (const std::exception &) { threw++; }
        }
        Tag t;
        size_t kp = k == 0 ? 1 : k;
        std::vector<double> tp(kp), te(r.chance(1, 3) ? 0 : (r.chance(1, 4) ? kp + 1 : kp));
        for (auto &x : tp) x = 0.5 * (double) r.range(-2, 8);
        for (auto &x : te) x = 0.5 * (double) r.range(0, 6);
        ATTEMPT(t = b.createTag(base + "_t", "t", tp));
        if (t) {
            if (!te.empty()) ATTEMPT(t.extent(te));
            ATTEMPT(t.addReference(data));
            if (fa) { ATTEMPT(t.createFeature(fa, LinkType::Tagged)); ATTEMPT(t.createFeature(fa, LinkType::Indexed)); ATTEMPT(t.createFeature(fa, LinkType::Untagged)); }
            calls++; try { DataView v = t.taggedData((size_t) 0); read_view(v); } catch (const std::exception &) { threw++; }
            calls++; try { DataView v = util::taggedData(t, (ndsize_t) 0, RangeMatch::Exclusive); read_view(v); } catch (const std::exception &) { threw++; }
            for (size_t fi = 0; fi < 3; fi++) { calls++; try { DataView v = t.featureData(fi); read_view(v); } catch (const std::exception &) { threw++; } }
        }
        cnt.inc("abuse.tagging_setups");
        break;
    }
    case OP_abuse_none: {
        arg_class = "sel=" + std::to_string(sel);
        Block nb; DataArray na; DataFrame nf; Tag nt; MultiTag nm; Group ng; Source ns; Section nsec; Property np; Feature nfe; File nfile; Dimension nd0;
        ATTEMPT((void) nb.name()); ATTEMPT((void) nb.dataArrayCount()); ATTEMPT(nb.createTag("x", "t", {1.0}));
        ATTEMPT((void) na.dataExtent()); ATTEMPT((void) na.dimensions()); ATTEMPT(na.label("x")); ATTEMPT((void) na.isValidEntity());
        ATTEMPT((void) nf.rows()); ATTEMPT((void) nt.position()); ATTEMPT((void) nm.positions()); ATTEMPT((void) ng.dataArrayCount());
        ATTEMPT((void) ns.sources()); ATTEMPT((void) nsec.properties()); ATTEMPT((void) np.values()); ATTEMPT((void) nfe.data());
        ATTEMPT((void) nfile.blockCount()); ATTEMPT((void) nfile.isOpen()); ATTEMPT(nfile.close()); ATTEMPT((void) nd0.index());
        // none handles as arguments
        ATTEMPT((void) f.hasBlock(nb)); ATTEMPT((void) f.deleteBlock(nb)); ATTEMPT((void) f.hasSection(nsec)); ATTEMPT((void) f.deleteSection(nsec));
        Block b = blk(a[0]);
        if (b) {
            ATTEMPT((void) b.hasDataArray(na)); ATTEMPT((void) b.deleteDataArray(na)); ATTEMPT((void) b.hasTag(nt)); ATTEMPT((void) b.deleteTag(nt));
            ATTEMPT((void) b.hasMultiTag(nm)); ATTEMPT((void) b.deleteMultiTag(nm)); ATTEMPT((void) b.hasGroup(ng)); ATTEMPT((void) b.deleteGroup(ng));
            ATTEMPT((void) b.hasSource(ns)); ATTEMPT((void) b.deleteSource(ns)); ATTEMPT((void) b.hasDataFrame(nf)); ATTEMPT((void) b.deleteDataFrame(nf));
            ATTEMPT(b.metadata(nsec));
            Tag t = tag_at(a[0], a[1]);
            if (t) { ATTEMPT((void) t.hasReference(na)); ATTEMPT((void) t.removeReference(na)); ATTEMPT((void) t.hasFeature(nfe)); ATTEMPT((void) t.deleteFeature(nfe)); ATTEMPT((void) t.hasSource(ns)); ATTEMPT((void) t.removeSource(ns)); }
            Group g = group_at(a[0], a[1]);
            if (g) { ATTEMPT((void) g.hasDataArray(na)); ATTEMPT((void) g.removeDataArray(na)); ATTEMPT((void) g.hasTag(nt)); ATTEMPT((void) g.removeTag(nt)); }
            DataArray x = arr_at(a[0], a[1]);
            if (x) { ATTEMPT(x.appendDataFrameDimension(nf, 0u)); }
        }
        Section s = section_at(a[1]);
        if (s) { ATTEMPT((void) s.hasProperty(np)); ATTEMPT((void) s.deleteProperty(np)); ATTEMPT((void) s.hasSection(nsec)); ATTEMPT((void) s.deleteSection(nsec)); }
        break;
    }
    case OP_abuse_frame: {
        DataFrame df = frame_at(a[0], a[1]); if (!df) return 2;
        ndsize_t rows = df.rows(); unsigned nc = (unsigned) df.columns().size();
        arg_class = "sel=" + std::to_string(sel);
        // every cell of the first and the last rows through the cell interfaces (all columns at once, by name and by index)
        { std::vector<Column> cols; try { cols = df.columns(); } catch (const std::exception &) {}
          std::vector<std::string> names; std::vector<unsigned> idx; for (unsigned i = 0; i < cols.size(); i++) { names.push_back(cols[i].name); idx.push_back(i); }
          for (ndsize_t row : {(ndsize_t) 0, rows ? rows - 1 : (ndsize_t) 0, rows / 2}) { if (row >= rows) continue; ATTEMPT((void) df.readCells(row, names)); for (unsigned ci : idx) ATTEMPT((void) df.readCell(row, ci)); ATTEMPT((void) df.readRow(row)); if (nc) ATTEMPT((void) df.readCell(row, nc - 1)); } }
        ATTEMPT((void) df.readRow(rows)); ATTEMPT((void) df.readRow(rows + 10));
        ATTEMPT((void) df.readCell(rows ? rows - 1 : 0, nc)); ATTEMPT((void) df.readCell(rows, 0u)); ATTEMPT((void) df.readCell((ndsize_t) 0, std::string("no-such-column")));
        ATTEMPT((void) df.readCells((ndsize_t) 0, {})); ATTEMPT((void) df.colName(nc)); ATTEMPT((void) df.colName(nc + 5)); ATTEMPT((void) df.colIndex(std::string("nope")));
        ATTEMPT((void) df.colName(std::vector<unsigned>{0, nc + 1}));
        ATTEMPT({ std::vector<double> v; df.readColumn(std::string("no-such-column"), v, true); });
        ATTEMPT({ std::vector<double> v; df.readColumn(nc, v, true); });
        ATTEMPT({ std::vector<double> v(2); df.readColumn(0u, v, false, rows); });
        ATTEMPT({ std::vector<int32_t> v; df.readColumn(0u, v, true, rows + 1); });
        ATTEMPT({ std::vector<double> v(1); df.readColumn(0u, v, (size_t) 5, false); });
        break;
    }
    case OP_abuse_misc: {
        arg_class = "sel=" + std::to_string(sel);
        switch (sel % 6) {
        case 0: ATTEMPT((void) f.validate()); break;
        case 1: ATTEMPT((void) f.getBlock(f.blockCount())); ATTEMPT((void) f.getBlock(std::string("no-such-block"))); ATTEMPT((void) f.getSection(f.sectionCount() + 3)); ATTEMPT((void) f.getSection(std::string(""))); break;
        case 2: { Block b = blk(a[0]); if (b) { ATTEMPT((void) b.getDataArray(b.dataArrayCount())); ATTEMPT((void) b.getTag(b.tagCount() + 1)); ATTEMPT((void) b.getMultiTag(b.multiTagCount())); ATTEMPT((void) b.getGroup(b.groupCount())); ATTEMPT((void) b.getSource(b.sourceCount())); ATTEMPT((void) b.getDataFrame(b.dataFrameCount())); ATTEMPT((void) b.getDataArray(std::string(""))); } break; }
        case 3: { Section s = section_at(a[1]); if (s) { ATTEMPT((void) s.getProperty(s.propertyCount())); ATTEMPT((void) s.getSection(s.sectionCount())); ATTEMPT((void) s.getProperty(std::string("nope"))); ATTEMPT((void) s.inheritedProperties()); ATTEMPT((void) s.findRelated()); ATTEMPT((void) s.findSections(util::AcceptAll<Section>(), 0)); ATTEMPT((void) s.referringDataArrays()); } break; }
        case 4: { Group g = group_at(a[0], a[1]); if (g) { ATTEMPT((void) g.getDataArray((size_t) g.dataArrayCount())); ATTEMPT((void) g.getTag((size_t) g.tagCount())); ATTEMPT((void) g.getMultiTag((size_t) g.multiTagCount())); ATTEMPT((void) g.getDataFrame(g.dataFrameCount())); } break; }
        default: { Source s = source_at(a[0], a[1]); if (s) { ATTEMPT((void) s.getSource(s.sourceCount())); ATTEMPT((void) s.findSources(util::AcceptAll<Source>(), 0)); ATTEMPT((void) s.referringDataArrays()); ATTEMPT((void) s.parentSource()); } break; }
        }
        break;
    }
    case OP_abuse_legacy: {
        // the older and rarely used entry points of the same functionality (deprecated overloads, free functions of nix::util, unit-
        // carrying conversions, back-reference queries) with in-range and out-of-range arguments
        arg_class = "sel=" + std::to_string(sel);
        double pos = 0.5 * (double) r.range(-6, 40);
        double pos2 = pos + 0.5 * (double) r.range(-2, 12);
        static const char *units[] = {"none", "ms", "s", "mV", "", "kHz", "foo", "m/s"};
        std::string u = units[r.below(8)];
        static const PositionMatch pms[] = {PositionMatch::Less, PositionMatch::LessOrEqual, PositionMatch::Equal, PositionMatch::GreaterOrEqual, PositionMatch::Greater};
        PositionMatch pm = pms[r.below(5)];
        RangeMatch rm = r.chance(1, 2) ? RangeMatch::Inclusive : RangeMatch::Exclusive;
        switch (((unsigned) a[2]) % 8) {
        case 7: {
            // empty containers: an axis without a single tick / label / row, and data without a single element, looked up in every way
            Block b = blk(a[0]); if (!b) return 2;
            std::string base = "em" + std::to_string(session) + "_" + std::to_string(cur) + "_" + std::to_string(r.below(1000));
            int kind = r.range(0, 3);
            arg_class = "empty-axis,kind=" + std::to_string(kind);
            DataArray d; Dimension dim;
            ATTEMPT(d = b.createDataArray(base, "t", DataType::Double, NDSize({3})));
            if (!d) break;
            { std::vector<double> v = {1.0, 2.0, 4.0}; ATTEMPT(d.setData(v)); }
            if (kind == 0) { ATTEMPT(d.appendAliasRangeDimension()); ATTEMPT(d.dataExtent(NDSize({0}))); }                       // alias axis of an array that lost all its elements
            else if (kind == 1) { ATTEMPT(d.appendRangeDimension({1.0, 2.0, 4.0})); ATTEMPT(d.getDimension(1).asRangeDimension().ticks(std::vector<double>())); ATTEMPT(d.dataExtent(NDSize({0}))); }
            else if (kind == 2) { ATTEMPT(d.appendSetDimension()); ATTEMPT(d.dataExtent(NDSize({0}))); }
            else { DataFrame fr; std::vector<Column> cols(1); cols[0].name = "c"; cols[0].unit = ""; cols[0].dtype = DataType::Double;
                   ATTEMPT(fr = b.createDataFrame(base + "_f", "t", cols)); if (fr) ATTEMPT(d.appendDataFrameDimension(fr, 0u)); }
            try { if (d.dimensionCount()) dim = d.getDimension(1); } catch (const std::exception &) {}
            if (dim) {
                DimensionType t = dim.dimensionType();
                std::vector<double> st = {pos, -1.0}, en = {pos2, 1e12};
                if (t == DimensionType::Range) { RangeDimension rd = dim.asRangeDimension();
                    ATTEMPT((void) rd.ticks()); ATTEMPT((void) rd.indexOf(pos, pm)); ATTEMPT((void) rd.indexOf(pos, pos2, std::vector<double>(), rm)); ATTEMPT((void) rd.indexOf(-9.0, 9e9, std::vector<double>(), rm));
                    ATTEMPT((void) rd.indexOf(st, en, rm)); ATTEMPT((void) rd.positionInRange(pos)); ATTEMPT((void) rd.tickAt(0)); ATTEMPT((void) rd.axis(1, 0));
                    ATTEMPT((void) rd.indexOf(pos, true)); ATTEMPT((void) rd.indexOf(pos, pos2)); ATTEMPT((void) util::positionToIndex(pos, "none", pm, rd)); }
                else if (t == DimensionType::Set) { SetDimension sd = dim.asSetDimension(); ATTEMPT((void) sd.indexOf(pos, pm)); ATTEMPT((void) sd.indexOf(pos, pos2, rm)); ATTEMPT((void) sd.indexOf(st, en, rm)); ATTEMPT((void) util::positionToIndex(pos, pm, sd)); }
                else if (t == DimensionType::DataFrame) { DataFrameDimension fd = dim.asDataFrameDimension(); ATTEMPT((void) fd.indexOf(pos, pm)); ATTEMPT((void) fd.indexOf(pos, pos2, rm)); ATTEMPT((void) fd.size()); ATTEMPT({ std::vector<double> tk; fd.ticks(tk, boost::optional<unsigned>(0u), true); }); }
            }
            Tag t;
            ATTEMPT(t = b.createTag(base + "_t", "t", {pos}));
            if (t) {
                if (r.chance(1, 2)) ATTEMPT(t.extent({pos2 > pos ? pos2 - pos : 1.0}));
                ATTEMPT(t.addReference(d));
                calls++; try { DataView v = t.taggedData((size_t) 0); read_view(v); } catch (const std::exception &) { threw++; }
                calls++; try { DataView v = util::taggedData(t, (ndsize_t) 0, rm); read_view(v); } catch (const std::exception &) { threw++; }
            }
            { std::vector<double> v; ATTEMPT(d.getData(v)); }
            calls++; try { DataView v = util::dataSlice(d, {pos}, {pos2}, {}, rm); read_view(v); } catch (const std::exception &) { threw++; }
            ATTEMPT((void) f.validate());
            break;
        }
        case 0: case 1: {
            DataArray x = arr_at(a[0], a[1]); if (!x) return 2;
            ndsize_t n = x.dimensionCount(); if (!n) return 2;
            Dimension d; try { d = x.getDimension(1 + r.below(n)); } catch (const std::exception &) { return 1; }
            DimensionType t = d.dimensionType();
            std::vector<double> st = {pos, pos2, -1.0}, en = {pos2, pos, 1e12};
            std::vector<std::string> us = {u, "ms", "none"};
            if (t == DimensionType::Sample) {
                SampledDimension sd = d.asSampledDimension();
                ATTEMPT((void) sd.indexOf(pos)); ATTEMPT((void) sd.indexOf(pos, pos2)); ATTEMPT((void) sd.indexOf(st, en));
                ATTEMPT((void) sd.indexOf(pos, pos2, 0.0, 0.0, rm)); ATTEMPT((void) sd.indexOf(pos, pos2, -1.0, 1e300, rm));
                ATTEMPT((void) util::positionToIndex(pos, u, pm, sd)); ATTEMPT((void) util::positionToIndex(pos, u, sd));
                ATTEMPT((void) util::positionToIndex(st, en, us, rm, sd)); ATTEMPT((void) util::positionToIndex(st, en, us, sd));
                ATTEMPT((void) util::positionToIndex(st, std::vector<double>{1.0}, us, rm, sd));
            } else if (t == DimensionType::Range) {
                RangeDimension rd = d.asRangeDimension();
                ATTEMPT((void) rd.indexOf(pos, true)); ATTEMPT((void) rd.indexOf(pos, false)); ATTEMPT((void) rd.indexOf(pos, pos2)); ATTEMPT((void) rd.indexOf(st, en, true, rm)); ATTEMPT((void) rd.indexOf(st, en));
                ATTEMPT((void) util::positionToIndex(pos, u, pm, rd)); ATTEMPT((void) util::positionToIndex(pos, u, rd));
                ATTEMPT((void) util::positionToIndex(st, en, us, rm, rd)); ATTEMPT((void) util::positionToIndex(st, en, us, rd));
                ATTEMPT((void) util::positionToIndex(st, en, std::vector<std::string>{"ms"}, rm, rd));
            } else if (t == DimensionType::Set) {
                SetDimension sd = d.asSetDimension();
                std::vector<std::string> labels; try { labels = sd.labels(); } catch (const std::exception &) {}
                ATTEMPT((void) sd.indexOf(pos, pos2, labels, rm)); ATTEMPT((void) sd.indexOf(st, en, rm));
                { std::vector<std::string> none; ATTEMPT((void) sd.indexOf(pos, pos2, none, rm)); }
                ATTEMPT((void) util::positionToIndex(pos, pm, sd)); ATTEMPT((void) util::positionToIndex(pos, u, sd));
                ATTEMPT((void) util::positionToIndex(st, en, rm, sd)); ATTEMPT((void) util::positionToIndex(st, en, us, sd));
            } else if (t == DimensionType::DataFrame) {
                DataFrameDimension fd = d.asDataFrameDimension();
                ATTEMPT((void) fd.indexOf(pos, pm)); ATTEMPT((void) fd.indexOf(pos, pos2, rm)); ATTEMPT((void) fd.indexOf(st, en, rm));
                ATTEMPT((void) util::positionToIndex(pos, pm, fd));   /* the overload taking a unit is declared but not defined in the library */
                ATTEMPT((void) util::positionToIndex(st, en, rm, fd));
            }
            ATTEMPT((void) util::dimTypeToStr(t));
            break;
        }
        case 2: {
            Tag t = tag_at(a[0], a[1]); if (!t) return 2;
            ndsize_t nr = t.referenceCount(), nf = t.featureCount();
            ndsize_t ri = r.chance(1, 3) ? nr + r.below(2) : (nr ? r.below(nr) : 0), fi = r.chance(1, 3) ? nf + r.below(2) : (nf ? r.below(nf) : 0);
            calls++; try { DataView v = util::retrieveData(t, ri, rm); read_view(v); } catch (const std::exception &) { threw++; }
            calls++; try { DataView v = util::retrieveFeatureData(t, fi, rm); read_view(v); } catch (const std::exception &) { threw++; }
            calls++; try { DataView v = util::featureData(t, fi, rm); read_view(v); } catch (const std::exception &) { threw++; }
            if (nr) { DataArray ref; try { ref = t.getReference((size_t) 0); } catch (const std::exception &) {} if (ref) { calls++; try { DataView v = util::retrieveData(t, ref, rm); read_view(v); } catch (const std::exception &) { threw++; }
                                                                                                                         calls++; try { DataView v = util::taggedData(t, ref, rm); read_view(v); } catch (const std::exception &) { threw++; } } }
            if (nf) { Feature fe; try { fe = t.getFeature((ndsize_t) 0); } catch (const std::exception &) {} if (fe) { calls++; try { DataView v = util::retrieveFeatureData(t, fe, rm); read_view(v); } catch (const std::exception &) { threw++; }
                                                                                                                        calls++; try { DataView v = util::featureData(t, fe, rm); read_view(v); } catch (const std::exception &) { threw++; } } }
            { DataArray other = arr_at(a[0], a[3]); if (other) { calls++; try { DataView v = util::taggedData(t, other, rm); read_view(v); } catch (const std::exception &) { threw++; } } }
            { Feature none_f; ATTEMPT((void) util::featureData(t, none_f, rm)); DataArray none_a; ATTEMPT((void) util::taggedData(t, none_a, rm)); }
            break;
        }
        case 3: case 4: {
            MultiTag t = mtag_at(a[0], a[1]); if (!t) return 2;
            ndsize_t nr = t.referenceCount(), nf = t.featureCount(), np = 0;
            try { np = t.positionCount(); } catch (const std::exception &) {}
            ndsize_t pi = r.chance(1, 3) ? np + r.below(2) : (np ? r.below(np) : 0);
            ndsize_t ri = r.chance(1, 4) ? nr + r.below(2) : (nr ? r.below(nr) : 0), fi = r.chance(1, 4) ? nf + r.below(2) : (nf ? r.below(nf) : 0);
            std::vector<ndsize_t> idx = {pi, 0, np};
            calls++; try { DataView v = util::retrieveData(t, pi, ri, rm); read_view(v); } catch (const std::exception &) { threw++; }
            calls++; try { std::vector<DataView> vs = util::retrieveData(t, idx, ri, rm); for (auto &v : vs) read_view(v); } catch (const std::exception &) { threw++; }
            calls++; try { std::vector<DataView> vs = util::taggedData(t, idx, ri, rm); for (auto &v : vs) read_view(v); } catch (const std::exception &) { threw++; }
            calls++; try { DataView v = util::retrieveFeatureData(t, pi, fi, rm); read_view(v); } catch (const std::exception &) { threw++; }
            calls++; try { std::vector<DataView> vs = util::retrieveFeatureData(t, idx, fi, rm); for (auto &v : vs) read_view(v); } catch (const std::exception &) { threw++; }
            calls++; try { std::vector<DataView> vs = util::featureData(t, idx, fi, rm); for (auto &v : vs) read_view(v); } catch (const std::exception &) { threw++; }
            calls++; try { DataView v = t.retrieveFeatureData((size_t) pi, (size_t) fi); read_view(v); } catch (const std::exception &) { threw++; }
            if (nr) { DataArray ref; try { ref = t.getReference((size_t) 0); } catch (const std::exception &) {} if (ref) {
                calls++; try { DataView v = util::retrieveData(t, pi, ref, rm); read_view(v); } catch (const std::exception &) { threw++; }
                calls++; try { std::vector<DataView> vs = util::retrieveData(t, idx, ref, rm); for (auto &v : vs) read_view(v); } catch (const std::exception &) { threw++; }
                calls++; try { DataView v = util::taggedData(t, pi, ref, rm); read_view(v); } catch (const std::exception &) { threw++; }
                { NDSize o, c; ATTEMPT(util::getOffsetAndCount(t, ref, pi, o, c, rm)); }
                calls++; try { DataView v = t.taggedData((size_t) pi, ref.name()); read_view(v); } catch (const std::exception &) { threw++; } } }
            if (nf) { Feature fe; try { fe = t.getFeature((ndsize_t) 0); } catch (const std::exception &) {} if (fe) {
                calls++; try { DataView v = util::retrieveFeatureData(t, pi, fe, rm); read_view(v); } catch (const std::exception &) { threw++; }
                calls++; try { DataView v = util::featureData(t, pi, fe, rm); read_view(v); } catch (const std::exception &) { threw++; }
                calls++; try { std::vector<DataView> vs = util::retrieveFeatureData(t, idx, fe, rm); for (auto &v : vs) read_view(v); } catch (const std::exception &) { threw++; }
                calls++; try { std::vector<DataView> vs = util::featureData(t, idx, fe, rm); for (auto &v : vs) read_view(v); } catch (const std::exception &) { threw++; }
                calls++; try { DataView v = t.featureData((size_t) pi, fe.id()); read_view(v); } catch (const std::exception &) { threw++; } } }
            ATTEMPT((void) t.featureData((size_t) pi, std::string("no-such-feature"))); ATTEMPT((void) t.hasPositions());
            break;
        }
        case 5: {
            Section s = section_at(a[1]);
            Block b = blk(a[0]);
            if (s) { ATTEMPT((void) s.referringBlocks()); ATTEMPT((void) s.referringTags()); ATTEMPT((void) s.referringMultiTags()); ATTEMPT((void) s.referringSources()); ATTEMPT((void) s.referringDataArrays());
                     if (b) { ATTEMPT((void) s.referringTags(b)); ATTEMPT((void) s.referringMultiTags(b)); ATTEMPT((void) s.referringSources(b)); ATTEMPT((void) s.referringDataArrays(b)); }
                     Block nb; ATTEMPT((void) s.referringTags(nb)); ATTEMPT((void) s.referringDataArrays(nb));
                     ATTEMPT((void) s.findSections(util::AcceptAll<Section>(), 100)); ATTEMPT((void) s.findRelated()); ATTEMPT((void) s.inheritedProperties()); ATTEMPT((void) s.parent()); }
            Source so = source_at(a[0], a[1]);
            if (so) { ATTEMPT((void) so.referringTags()); ATTEMPT((void) so.referringMultiTags()); ATTEMPT((void) so.referringDataArrays()); ATTEMPT((void) so.findSources(util::AcceptAll<Source>(), 100)); ATTEMPT((void) so.parentSource()); }
            if (b) { ATTEMPT((void) b.findSources(util::AcceptAll<Source>(), 100)); }
            ATTEMPT((void) f.findSections(util::AcceptAll<Section>(), 100)); ATTEMPT((void) f.location()); ATTEMPT((void) f.fileMode()); ATTEMPT((void) f.compression()); ATTEMPT((void) f.updatedAt());
            break;
        }
        default: {
            // unit and name helpers with arbitrary strings
            static const char *strs[] = {"", "mV", "mV^2", "m/s", "kg*m^2/s^-3", "^", "*", "/", "m^", "1/s", "mV*", "\xc2\xb5V", "uV", "dam", "m^-1*", "1e3", " ", "a/b/c", "kHz^2", "S/cm", "none"};
            std::string x = strs[r.below(21)], y = strs[r.below(21)];
            ATTEMPT((void) util::isSIUnit(x)); ATTEMPT((void) util::isAtomicSIUnit(x)); ATTEMPT((void) util::isCompoundSIUnit(x)); ATTEMPT((void) util::isScalable(x, y));
            ATTEMPT((void) util::isScalable(std::vector<std::string>{x, y}, std::vector<std::string>{y, x})); ATTEMPT((void) util::isScalable(std::vector<std::string>{x}, std::vector<std::string>{y, x}));
            ATTEMPT((void) util::isSetAtSamePos(std::vector<std::string>{x, ""}, std::vector<std::string>{y}));
            ATTEMPT((void) util::getSIScaling(x, y));
            { std::string si, prefix, power; ATTEMPT(util::splitUnit(x, prefix, si, power)); }
            { std::vector<std::string> parts; ATTEMPT(util::splitCompoundUnit(x, parts)); }
            ATTEMPT((void) util::convertToSeconds(x, 1.5)); ATTEMPT((void) util::convertToKelvin(x, 1.5));
            ATTEMPT((void) util::unitSanitizer(x)); ATTEMPT((void) util::nameSanitizer(x)); ATTEMPT((void) util::nameCheck(x)); ATTEMPT((void) util::looksLikeUUID(x));
            ATTEMPT((void) string_to_data_type(x)); ATTEMPT((void) apiVersion());
            break;
        }
        }
        break;
    }
    default: return 2;
    }
    cnt.inc("abuse.calls", (uint64_t) calls);
    cnt.inc("abuse.threw", (uint64_t) threw);
    return calls ? 0 : 2;
}

} // namespace sim
