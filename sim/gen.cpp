// Swarm configuration and plan generation; plan (de)serialisation.
#include "engine.hpp"
#include <sstream>
#include <cstdio>

namespace sim {

static std::string esc(const std::string &s) {
    std::string o;
    for (unsigned char c : s) { char b[8]; if (c <= 32 || c == '%' || c >= 127) { snprintf(b, sizeof b, "%%%02x", c); o += b; } else o += (char) c; }
    return o.empty() ? "%" : o;
}
static std::string unesc(const std::string &s) {
    if (s == "%") return "";
    std::string o;
    for (size_t i = 0; i < s.size(); i++) {
        if (s[i] == '%' && i + 2 < s.size()) { unsigned v = 0; sscanf(s.substr(i + 1, 2).c_str(), "%02x", &v); o += (char) v; i += 2; }
        else o += s[i];
    }
    return o;
}

std::string op_to_line(const Op &op) {
    std::ostringstream o;
    o << op_name(op.kind);
    for (int x : op.a) o << ' ' << x;
    o << ' ' << op.sub << ' ' << esc(op.s);
    return o.str();
}
bool op_from_line(const std::string &line, Op &op) {
    std::istringstream i(line);
    std::string k, s;
    if (!(i >> k)) return false;
    op.kind = op_from_name(k);
    if (op.kind < 0) return false;
    for (int &x : op.a) if (!(i >> x)) return false;
    if (!(i >> op.sub)) return false;
    if (!(i >> s)) s = "%";
    op.s = unesc(s);
    return true;
}

std::string swarm_to_line(const Swarm &s) {
    std::ostringstream o;
    o << "swarm " << s.lane << ' ' << s.nops << ' ' << s.cache_mode << ' ' << s.sieve_mode << ' ' << s.perturb_pm << ' ' << s.file_compression << ' '
      << s.dtype_mask << ' ' << s.big << ' ' << s.name_pool << ' ' << s.t0 << ' ' << s.entropy;
    if (s.mdc_mode) o << ' ' << s.mdc_mode;
    return o.str();
}
bool swarm_from_line(const std::string &line, Swarm &s) {
    std::istringstream i(line);
    std::string w;
    if (!(i >> w) || w != "swarm") return false;
    if (!(i >> s.lane >> s.nops >> s.cache_mode >> s.sieve_mode >> s.perturb_pm >> s.file_compression >> s.dtype_mask >> s.big >> s.name_pool >> s.t0 >> s.entropy)) return false;
    if (!(i >> s.mdc_mode)) s.mdc_mode = 0;
    return true;
}
std::string plan_to_text(const Plan &p) {
    std::string t = swarm_to_line(p.swarm) + "\n";
    for (auto &op : p.ops) t += op_to_line(op) + "\n";
    return t;
}
bool plan_from_text(const std::string &text, Plan &p) {
    std::istringstream i(text);
    std::string line;
    bool have = false;
    p.ops.clear();
    while (std::getline(i, line)) {
        if (line.empty() || line[0] == '#') continue;
        if (!have) { if (!swarm_from_line(line, p.swarm)) return false; have = true; continue; }
        Op op;
        if (!op_from_line(line, op)) return false;
        p.ops.push_back(op);
    }
    return have;
}

// ------------------------------------------------------------------------------------------------
struct LaneDef { const char *name; const char *prop; };
static const LaneDef kLanes[] = {
    {"array", "C01"}, {"tree", "C02"}, {"names", "C03"}, {"delete", "C04"}, {"reject", "C08"}, {"modes", "C09"},
    {"version", "C10"}, {"durable", "C11"}, {"xkill", "C11"}, {"ids", "C12"}, {"idhist", "C12"}, {"dims", "C13"}, {"props", "C14"}, {"frame", "C15"}, {"abuse", "C16"},
};
bool lane_known(const std::string &l) { for (auto &d : kLanes) if (l == d.name) return true; return false; }
const char *lane_property(const std::string &l) { for (auto &d : kLanes) if (l == d.name) return d.prop; return "?"; }
std::vector<std::string> lane_list() { std::vector<std::string> v; for (auto &d : kLanes) v.push_back(d.name); return v; }

static const char *kNamePool[] = {"a", "b", "c", "A", "a ", "..", "\xc3\xbc-\xce\xb2", "01234567-89ab-4def-8123-456789abcdef", "nm with space", "x.y",
                                  "a-rather-long-name-that-goes-on-and-on-and-on-0123456789", "d", "e", " a", "B", "a\tb"};

std::string World::pick_name(Rng &r, int sel) { (void) r; return kNamePool[((unsigned) sel) % 16]; }

static void w_set(std::vector<int> &w, std::initializer_list<int> kinds, int v) { for (int k : kinds) w[(size_t) k] = v; }

static std::vector<int> lane_weights(const std::string &lane, Rng &r) {
    std::vector<int> w(OP_COUNT, 0);
    // groups
    std::initializer_list<int> create_core = {OP_create_block, OP_create_section, OP_create_source, OP_create_array, OP_create_frame, OP_create_tag, OP_create_mtag, OP_create_group};
    std::initializer_list<int> deletes = {OP_delete_block, OP_delete_section, OP_delete_source, OP_delete_array, OP_delete_frame, OP_delete_tag, OP_delete_mtag, OP_delete_group, OP_feat_delete, OP_prop_delete};
    std::initializer_list<int> links = {OP_set_meta, OP_add_source, OP_rm_source, OP_set_sources, OP_tag_addref, OP_tag_rmref, OP_tag_setrefs, OP_feat_create, OP_feat_link, OP_feat_data,
                                        OP_mtag_positions, OP_mtag_extents, OP_group_add, OP_group_rm, OP_group_set, OP_sec_link};
    std::initializer_list<int> attrs = {OP_set_def, OP_set_type, OP_tag_pos, OP_tag_extent, OP_tag_units, OP_sec_repo, OP_arr_label, OP_arr_unit};
    std::initializer_list<int> props = {OP_prop_create, OP_prop_values, OP_prop_delvalues, OP_prop_none, OP_prop_unit, OP_prop_uncert, OP_prop_def};
    std::initializer_list<int> arrdata = {OP_arr_write, OP_arr_write_whole, OP_arr_append, OP_arr_extent, OP_arr_read, OP_arr_read_cal, OP_arr_view, OP_arr_origin, OP_arr_poly};
    std::initializer_list<int> dimops = {OP_dim_append, OP_dim_delete_all, OP_dim_set, OP_dim_read};
    std::initializer_list<int> frameops = {OP_frame_rows, OP_frame_write_row, OP_frame_write_cell, OP_frame_write_col, OP_frame_read_row, OP_frame_read_cell, OP_frame_read_col};
    std::initializer_list<int> abuse = {OP_abuse_array, OP_abuse_dims, OP_abuse_tag, OP_abuse_none, OP_abuse_frame, OP_abuse_misc, OP_abuse_legacy};

    // a thin base of everything that builds structure, so every lane meets non-trivial files
    w_set(w, create_core, 6);
    w[OP_create_block] = 4;
    w[OP_reopen] = 6; w[OP_clock] = 2; w[OP_use_stale] = 2; w[OP_keep] = 1;
    if (lane == "tree" || lane == "names" || lane == "durable" || lane == "delete") w[OP_second_view] = 4;

    if (lane == "array") {
        w_set(w, arrdata, 14); w[OP_create_array] = 18; w[OP_arr_write] = 30; w[OP_arr_read] = 24; w[OP_reopen] = 10; w[OP_delete_array] = 2;
        w[OP_create_frame] = w[OP_create_tag] = w[OP_create_mtag] = w[OP_create_group] = w[OP_create_source] = w[OP_create_section] = 1;
        w[OP_flush] = 3; w[OP_kill] = 3; w[OP_dim_append] = 3;
    } else if (lane == "tree" || lane == "durable") {
        w_set(w, links, 5); w_set(w, attrs, 4); w_set(w, props, 4); w_set(w, deletes, 2); w_set(w, arrdata, 2); w_set(w, dimops, 3); w_set(w, frameops, 2);
        w[OP_arr_write] = 5; w[OP_reopen] = 12; w[OP_flush] = 4; w[OP_kill] = 4; w[OP_clock] = 4; w[OP_mk_graph] = 3; w[OP_mk_fitted] = 1; w[OP_del_misdirected] = 1; w[OP_replace_member] = 2; w[OP_force_created] = 4;
        if (lane == "durable") { w[OP_flush] = 14; w[OP_kill] = 14; w[OP_flush_fault] = 6; w[OP_close_fault] = 5; w[OP_mk_crowd] = 1; w[OP_use_stale] = 14; w[OP_keep] = 4; w[OP_drop] = 1; w[OP_reopen] = 10;
                                 w[OP_arr_read] = 6; w[OP_frame_read_row] = 4; w[OP_dim_read] = 3; }
    } else if (lane == "names" || lane == "idhist") {
        w[OP_mk_graph] = 4; w[OP_mk_fitted] = 2; w[OP_replace_member] = 10; if (lane == "idhist") { w[OP_force_id] = 3; w[OP_clock] = 6; }
        w_set(w, create_core, 14); w_set(w, deletes, 7); w[OP_prop_create] = 12; w[OP_feat_create] = 8; w[OP_tag_addref] = 10; w[OP_tag_rmref] = 5;
        w[OP_group_add] = 10; w[OP_group_rm] = 5; w[OP_add_source] = 10; w[OP_rm_source] = 5; w[OP_reopen] = 10; w[OP_set_sources] = 4; w[OP_tag_setrefs] = 6; w[OP_group_set] = 6;
    } else if (lane == "delete") {
        w[OP_mk_graph] = 8; w[OP_mk_fitted] = 7; w[OP_del_misdirected] = 12; w[OP_replace_member] = 4;
        w_set(w, create_core, 10); w_set(w, links, 10); w_set(w, deletes, 9); w[OP_prop_create] = 5; w[OP_dim_append] = 8; w[OP_reopen] = 8; w[OP_use_stale] = 5; w[OP_abuse_tag] = 2;
    } else if (lane == "reject") {
        w_set(w, create_core, 9); w_set(w, links, 6); w_set(w, attrs, 5); w_set(w, props, 6); w_set(w, arrdata, 5); w_set(w, dimops, 7); w_set(w, frameops, 4); w_set(w, deletes, 2);
        w[OP_reopen] = 5; w[OP_mk_graph] = 3; w[OP_group_set] = 9; w[OP_tag_setrefs] = 9; w[OP_set_sources] = 6; w[OP_clock] = 7; w[OP_arr_write_whole] = 8;
    } else if (lane == "modes" || lane == "version") {
        w[OP_mk_graph] = 3;
        w_set(w, links, 4); w_set(w, attrs, 3); w_set(w, props, 4); w_set(w, arrdata, 3); w_set(w, dimops, 4); w_set(w, frameops, 3); w_set(w, deletes, 1);
        w[OP_reopen] = 8;
        if (lane == "modes") { w[OP_ro_catalogue] = 8; w[OP_mode_probe] = 14; }
    } else if (lane == "ids") {
        w_set(w, create_core, 12); w[OP_prop_create] = 10; w[OP_feat_create] = 8; w[OP_reopen] = 10; w[OP_clock] = 10; w[OP_force_id] = 3; w_set(w, deletes, 3);
    } else if (lane == "dims") {
        w_set(w, dimops, 22); w[OP_dim_append] = 30; w[OP_create_array] = 16; w[OP_create_frame] = 6; w[OP_arr_write] = 8; w[OP_arr_write_whole] = 4; w[OP_arr_extent] = 3;
        w[OP_arr_label] = 8; w[OP_arr_unit] = 8; w[OP_reopen] = 10; w[OP_delete_frame] = 2; w[OP_delete_array] = 1; w[OP_frame_rows] = 2;
        w[OP_create_tag] = w[OP_create_mtag] = w[OP_create_group] = w[OP_create_source] = 1;
    } else if (lane == "props") {
        w_set(w, props, 18); w[OP_prop_create] = 22; w[OP_prop_values] = 28; w[OP_create_section] = 14; w[OP_prop_delete] = 4; w[OP_delete_section] = 2; w[OP_reopen] = 10;
        w[OP_create_array] = w[OP_create_frame] = w[OP_create_tag] = w[OP_create_mtag] = w[OP_create_group] = w[OP_create_source] = 1;
        w[OP_flush] = 2; w[OP_kill] = 2;
    } else if (lane == "frame") {
        w_set(w, frameops, 18); w[OP_create_frame] = 16; w[OP_frame_rows] = 14; w[OP_reopen] = 10; w[OP_delete_frame] = 2;
        w[OP_create_array] = w[OP_create_tag] = w[OP_create_mtag] = w[OP_create_group] = w[OP_create_source] = w[OP_create_section] = 1;
        w[OP_flush] = 2; w[OP_kill] = 2;
    } else if (lane == "abuse") {
        w_set(w, abuse, 14); w_set(w, links, 4); w_set(w, deletes, 5); w_set(w, arrdata, 4); w_set(w, dimops, 6); w_set(w, frameops, 5); w_set(w, props, 3); w_set(w, attrs, 2);
        w[OP_use_stale] = 12; w[OP_keep] = 5; w[OP_drop] = 2; w[OP_reopen] = 6; w[OP_tag_pos] = 6; w[OP_tag_extent] = 6; w[OP_tag_units] = 4;
        w[OP_mk_graph] = 4; w[OP_abuse_tagging] = 16; w[OP_del_misdirected] = 3;
    }
    // swarm: switch a random third of the non-essential kinds off, boost a few
    for (int k = 0; k < OP_COUNT; k++) {
        if (w[(size_t) k] == 0) continue;
        bool essential = k == OP_create_block || k == OP_reopen || k == OP_create_array || k == OP_create_section || k == OP_create_frame || k == OP_ro_catalogue || k == OP_mode_probe;
        if (!essential && r.chance(1, 4)) w[(size_t) k] = 0;
        else if (r.chance(1, 6)) w[(size_t) k] *= 3;
    }
    return w;
}

Plan generate_plan(const std::string &lane, uint64_t seed, int tier) {
    Plan p;
    Rng r(seed);
    Swarm &s = p.swarm;
    s.lane = lane;
    int maxops = tier ? 70 : 40;
    s.nops = r.range(8, maxops);
    s.cache_mode = r.range(0, 2);
    s.sieve_mode = r.range(0, 1);
    s.perturb_pm = r.chance(1, 4) ? r.range(1, 20) : 0;
    s.file_compression = r.range(0, 1);
    s.dtype_mask = r.chance(1, 2) ? 0xfff : (int) (r.next() & 0xfff);
    if (!s.dtype_mask) s.dtype_mask = 0xfff;
    s.big = (lane == "array" || lane == "durable") && r.chance(1, 12) ? 1 : 0;
    s.name_pool = r.range(2, 16);
    s.t0 = 1500000000 + (int64_t) r.below(200000000);
    s.entropy = r.next();
    { unsigned m = (unsigned) ((s.entropy >> 40) % 4); s.mdc_mode = m < 2 ? 0 : (int) m - 1; }
    // one run in ten starts its clock somewhere unusual: at the epoch (backward jumps then lead before it), next to the end of 32-bit
    // time, in the 2090s, in the last second of 1999
    if (((s.entropy >> 44) % 10) == 0) { static const int64_t odd[] = {0, 40, 2147483600LL, 2147483700LL, 4000000000LL, 946684799LL}; s.t0 = odd[(s.entropy >> 48) % 6]; }   // half of the runs keep libhdf5's default metadata cache
    s.weights = lane_weights(lane, r);
    const std::vector<int> &w = s.weights;

    // names of every length: one "long" length per run, drawn either uniformly or next to a power of two, used with +-1 around it
    // (a name of a given length is always the same string, so long names collide with one another like short ones do)
    int long_len = r.chance(1, 2) ? r.range(17, 300) : (1 << r.range(4, 8)) + r.range(-2, 2);
    bool reject_lane = lane == "reject";
    // path-fitted names (see World::resolve_name): a few per cent of all names, more where deleting is the subject; half of them aim the
    // entity's own path at the boundary, the other half leave room for the suffix of a link to it ("/references/<id>" and the like)
    int fit_hi = lane == "delete" ? 24 : 17;
    // every plan starts with a little structure
    auto mk = [&](int kind) {
        Op op; op.kind = kind;
        for (int &x : op.a) x = (int) r.below(1000);
        op.a[5] = r.chance(1, 30) ? 1 : (int) r.below(1000) + 2;   // a[5]==1 selects rare variants (name = sibling id)
        op.sub = r.next() >> 1;
        int ns = r.range(0, 99);
        op.s = ns < 3 ? "" : ns < 6 ? "a/b" : ns < 14 ? long_name(long_len + r.range(-1, 1)) : ns < fit_hi ? "@fit:" + std::to_string((1 << r.range(6, 9)) + r.range(-1, 1) - (r.chance(1, 2) ? 0 : r.range(1, 64))) : kNamePool[r.below((uint64_t) s.name_pool)];
        // the reject lane draws its variant selectors from a small range half of the time: the invalid twins of an operation sit at
        // small residues of these selectors, so this makes every rejection class an everyday event there
        if (reject_lane && r.chance(1, 2)) for (int k = 2; k < 5; k++) op.a[k] = (int) r.below(8);
        return op;
    };
    if (lane == "ids" || lane == "xkill") {
        // schedule of steps of real processes: a[0] process, a[1] action, a[2] clock step, a[3] argument
        s.nops = r.range(6, tier ? 60 : 30);
        for (int i = 0; i < s.nops; i++) {
            Op op = mk(OP_xp);
            static const int acts_ids[] = {0, 1, 2, 3, 3, 3, 9, 4, 5, 3};
            static const int acts_kill[] = {0, 1, 3, 3, 3, 6, 6, 4, 3, 2};
            op.a[1] = lane == "ids" ? acts_ids[r.below(10)] : acts_kill[r.below(10)];
            if (i < 3) op.a[1] = r.chance(1, 3) ? 1 : 0;   // start by opening files
            op.s = "%";
            p.ops.push_back(op);
        }
        return p;
    }
    p.ops.push_back(mk(OP_create_block));
    p.ops.back().s = "a";
    // lane-specific prelude so that most runs reach the state their oracles need
    auto pre = [&](int kind, const char *name) { Op o = mk(kind); o.s = name; o.a[5] = 7; p.ops.push_back(o); return &p.ops.back(); };
    if (lane == "props") { Op *o = pre(OP_create_section, "a"); o->a[1] = 0; pre(OP_prop_create, "b")->a[3] = 0; }
    else if (lane == "frame") {
        Op *o = pre(OP_create_frame, "a"); o->a[1] = 0; o->a[2] = 0; o = pre(OP_frame_rows, "a");
        // one run in twelve is a short history on a long frame (several hundred rows: more than one storage chunk, more than any
        // fixed-size batch a reader may use), dominated by column reads and writes with offsets
        if (r.chance(1, 12)) {
            o->a[5] = 1;
            s.nops = r.range(5, 10);
            s.weights[OP_frame_read_col] *= 6; s.weights[OP_frame_write_col] *= 4; s.weights[OP_frame_rows] = 1; s.weights[OP_create_frame] = 1;
        }
    }
    else if (lane == "dims" || lane == "array") { Op *o = pre(OP_create_array, "a"); o->a[1] = 0; o->a[5] = 0; }
    else if (lane == "delete" || lane == "names" || lane == "idhist" || lane == "tree" || lane == "durable") {
        Op *o = pre(OP_create_array, "a"); o->a[1] = 0; o->a[5] = 0;
        o = pre(OP_create_section, "a"); o->a[1] = 0;
        o = pre(OP_create_tag, "a"); o->a[1] = 0;
        if (lane == "delete" ? r.chance(2, 3) : r.chance(1, 3)) { o = pre(OP_mk_graph, "%"); o->a[0] = 0; o->a[1] = 0; }
    }
    if ((lane == "names" || lane == "idhist") && r.chance(1, 3)) {
        // a second block with the same linked structure: members of another block are what the list setters must refuse
        Op *o = pre(OP_create_block, "b");
        o = pre(OP_mk_graph, "%"); o->a[0] = 1; o->a[1] = 0; o->a[2] = 0;
        o = pre(OP_mk_graph, "%"); o->a[0] = 0; o->a[1] = 0; o->a[2] = 0;
    }
    if (lane == "reject") {
        // two blocks with the same linked structure in each: "an entity of another block" (with and without a local namesake) is
        // available to every link operation from the start
        Op *o = pre(OP_mk_graph, "%"); o->a[0] = 0; o->a[1] = 0; o->a[2] = 0;
        o = pre(OP_create_block, "b");
        o = pre(OP_mk_graph, "%"); o->a[0] = 1; o->a[1] = 1; o->a[2] = 0;
    }
    int pending_ro = 0;     // ops left in a read-only session before the plan reopens RW
    bool after_flush = false;
    for (int i = 0; i < s.nops; i++) {
        Op op = mk(r.weighted(w));
        if (pending_ro > 0 && --pending_ro == 0) { op = mk(OP_reopen); op.a[0] = 0; }
        else if (op.kind == OP_reopen && (op.a[0] & 1)) pending_ro = r.range(1, 4);
        if (op.kind == OP_flush || op.kind == OP_flush_fault) after_flush = true;
        else if (after_flush) {
            // after a flush prefer read-only operations and then a kill, so that the guarantee is exercised
            int k = r.range(0, 9);
            if (k < 4) { static const int ro[] = {OP_arr_read, OP_frame_read_row, OP_dim_read, OP_frame_read_cell, OP_arr_read_cal, OP_clock}; op = mk(ro[r.below(6)]); }
            else if (k < 8) { op = mk(OP_kill); after_flush = false; }
            else after_flush = false;
        }
        p.ops.push_back(op);
        if (op.kind == OP_mk_fitted && r.chance(3, 4)) {
            // the entity the fitted link points to is deleted next (same block and slot selectors, population unchanged in between)
            static const int victim_del[12] = {OP_delete_array, OP_delete_array, OP_delete_array, OP_delete_array, OP_delete_array, OP_delete_frame, OP_delete_tag,
                                               OP_delete_mtag, OP_delete_source, OP_delete_section, OP_delete_section, OP_delete_frame};
            int k = ((unsigned) op.a[2]) % 12;
            Op d = mk(victim_del[k]);
            d.a[0] = (k == 9 || k == 10) ? op.a[1] : op.a[0];
            d.a[1] = op.a[1];
            p.ops.push_back(d);
            i++;
        }
    }
    if (lane == "modes") p.ops.push_back(mk(OP_ro_catalogue));
    if (lane == "version") p.ops.push_back(mk(OP_version_cube));
    // every plan ends with a strict restart: close, snapshot to a new inode, reopen read-only
    Op fin = mk(OP_reopen); fin.a[0] = 1; fin.a[1] = 1;
    p.ops.push_back(fin);
    return p;
}

} // namespace sim
