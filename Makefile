# Builds nixsim from /repo's current working tree (sources globbed at make time).
REPO ?= /repo
SAN  ?= asan
BUILD ?= build
SIM  ?= sim
# absolute, so that the dependency files name the same targets however make was invoked
override BUILD := $(abspath $(BUILD))
override SIM := $(abspath $(SIM))
B    := $(BUILD)/$(SAN)
CXX  := g++
ifeq ($(SAN),asan)
SANFLAGS := -fsanitize=address,undefined -fno-sanitize=vptr -fno-omit-frame-pointer -fno-sanitize-recover=undefined -D_GLIBCXX_SANITIZE_VECTOR
OPT := -O1
else ifeq ($(SAN),cov)
# line/function coverage of /repo's sources under the simulator (development aid: which library code no lane reaches)
SANFLAGS := --coverage -DNIXSIM_COV
OPT := -O0
else
SANFLAGS :=
OPT := -O1
endif
CXXFLAGS := -std=c++11 $(OPT) -g1 -w -DNDEBUG -DNIX_VERIF -DH5_USE_110_API=1 $(SANFLAGS) \
  -I$(REPO)/include -I$(B)/gen -I$(REPO)/backend -I/usr/include/hdf5/serial
LDFLAGS := $(SANFLAGS) -L/usr/lib/x86_64-linux-gnu/hdf5/serial \
  -Wl,--wrap=H5Fopen,--wrap=H5Fcreate,--wrap=H5Dread,--wrap=H5Dwrite,--wrap=__cxa_throw \
  -lhdf5 -lboost_regex -lboost_filesystem -lboost_system -lboost_date_time -ldl -lpthread

NIXSRC := $(shell find $(REPO)/src $(REPO)/backend/hdf5 -name '*.cpp' | sort)
NIXOBJ := $(patsubst $(REPO)/%.cpp,$(B)/nix/%.o,$(NIXSRC))
SIMSRC := $(sort $(wildcard $(SIM)/*.cpp))
SIMOBJ := $(patsubst $(SIM)/%.cpp,$(B)/sim/%.o,$(SIMSRC))

all: $(B)/nixsim

$(B)/gen/nix/nixversion.hpp: $(REPO)/version.h.in $(REPO)/CMakeLists.txt
	@mkdir -p $(dir $@)
	@maj=$$(sed -n 's/^set(VERSION_MAJOR \([0-9]*\)).*/\1/p' $(REPO)/CMakeLists.txt); \
	 min=$$(sed -n 's/^set(VERSION_MINOR \([0-9]*\)).*/\1/p' $(REPO)/CMakeLists.txt); \
	 pat=$$(sed -n 's/^set(VERSION_PATCH \([0-9]*\)).*/\1/p' $(REPO)/CMakeLists.txt); \
	 sed -e "s/@VERSION_MAJOR@/$$maj/" -e "s/@VERSION_MINOR@/$$min/" -e "s/@VERSION_PATCH@/$$pat/" $(REPO)/version.h.in > $@.tmp; \
	 cmp -s $@.tmp $@ || mv $@.tmp $@; rm -f $@.tmp

$(B)/nix/%.o: $(REPO)/%.cpp $(B)/gen/nix/nixversion.hpp
	@mkdir -p $(dir $@)
	$(CXX) $(CXXFLAGS) -MMD -MP -c $< -o $@

$(B)/sim/%.o: $(SIM)/%.cpp $(B)/gen/nix/nixversion.hpp
	@mkdir -p $(dir $@)
	$(CXX) $(CXXFLAGS) -I$(SIM) -MMD -MP -c $< -o $@

$(B)/nixsim: $(NIXOBJ) $(SIMOBJ)
	$(CXX) -o $@ $(NIXOBJ) $(SIMOBJ) $(LDFLAGS)

-include $(NIXOBJ:.o=.d) $(SIMOBJ:.o=.d)
.PHONY: all
