#include "sim.hpp"
#include "observe.hpp"
#include <nix.hpp>
#include <cstdio>
#include <cstdlib>
#include <unistd.h>
#include <sys/stat.h>

extern "C" __attribute__((used)) const char *__asan_default_options() {
    return "exitcode=77:detect_leaks=0:abort_on_error=0:handle_abort=1:allocator_may_return_null=1";
}
extern "C" __attribute__((used)) const char *__ubsan_default_options() {
    return "print_stacktrace=1:halt_on_error=1:exitcode=77";
}

int main(int argc, char **argv) {
    using namespace sim;
    std::string dir = "/dev/shm/nixsim-test";
    mkdir(dir.c_str(), 0755);
    disk_set_dir(dir);
    h5_warm();
    clock_enable(true); clock_set(1600000000);
    h5knob_set(1, 1);
    std::string p = dir + "/a.nix";
    nix::File f = nix::File::open(p, nix::FileMode::Overwrite);
    nix::Block b = f.createBlock("b", "t");
    nix::DataArray da = b.createDataArray("a", "t", nix::DataType::Double, nix::NDSize({3, 2}));
    da.appendSampledDimension(0.5, "x", "ms");
    da.appendSetDimension({"a", "b"});
    nix::Tag t = b.createTag("t", "t", {1.0});
    t.addReference(da);
    nix::Section s = f.createSection("s", "t");
    s.createProperty("p", nix::Variant(3.5));
    b.metadata(s);
    std::vector<std::string> viol; uint64_t g = 0;
    ObsOpts o; o.check_lookups = true; o.check_dims = true;
    Node d = observe(f, o, &viol, &g);
    printf("%s", render(d).c_str());
    for (auto &v : viol) printf("VIOL %s\n", v.c_str());
    printf("getters=%llu hash=%s disk=%s writes=%llu fds=%d\n", (unsigned long long) g, hex64(node_hash(d)).c_str(), hex64(disk_event_hash()).c_str(),
           (unsigned long long) disk_write_calls(p), disk_open_fds(p));
    f.close();
    printf("after close fds=%d clockreads=%llu knob=%llu\n", disk_open_fds(p), (unsigned long long) clock_reads(), (unsigned long long) h5knob_applied());
    std::string bytes; disk_read_all(p, bytes);
    printf("file %zu bytes hash %s\n", bytes.size(), hex64(hash_bytes(bytes.data(), bytes.size())).c_str());
    return 0;
}
