#!/bin/sh
# tools/try_patch.sh <patch.diff> <Cxx> [tier]  - run a check against a scratch copy of /repo with a patch applied.
# Nothing in /repo or /verif is touched; scratch copy, build and outputs live under /tmp and are removed afterwards.
set -e
PATCH=$(realpath "$1"); PROP=$2; TIER=${3:-quick}
S=$(mktemp -d /tmp/nixmut.XXXXXX)
trap 'rm -rf "$S"' EXIT
mkdir -p "$S/repo" "$S/out"
# the harness sources are snapshotted too, so that edits in /verif/sim while this runs do not reach the scratch build
cp -a /verif/sim "$S/sim"
(cd /repo && git ls-files -z src include backend CMakeLists.txt version.h.in | xargs -0 cp -a --parents -t "$S/repo")
# the working tree may carry uncommitted edits: copy those too
(cd "$S/repo" && if [ "$4" = "-R" ]; then patch -R -p1 -s < "$PATCH"; else patch -p1 -s < "$PATCH"; fi)
# reuse the main build as a starting point so that only touched files are recompiled
mkdir -p "$S/build"
if [ -d /verif/build/asan ]; then flock /verif/build/.lock cp -a /verif/build/asan "$S/build/asan"; find "$S/build/asan" -name '*.d' | xargs sed -i -e "s# /repo/# $S/repo/#g" -e "s#^/repo/#$S/repo/#" -e "s#/verif/build/asan/#@@B@@#g" -e "s#build/asan/#@@B@@#g" -e "s#@@B@@#$S/build/asan/#g" -e "s# /verif/sim/# $S/sim/#g" -e "s# sim/# $S/sim/#g"; fi
cd /verif
if [ "$PROP" = "exec" ]; then make -s -j16 REPO="$S/repo" BUILD="$S/build" SIM="$S/sim" >/dev/null 2>&1; NIXSIM_TRACE=1 "$S/build/asan/nixsim" exec "$TIER" 2>&1 | tail -${TAIL:-12}; exit 0; fi
NIXSIM_SIM="$S/sim" NIXSIM_REPO="$S/repo" NIXSIM_BUILD="$S/build" NIXSIM_OUT="$S/out" ./check "$PROP" "$TIER" 2>&1 | sed "s#$S/out#<scratch>#g" | tail -${TAIL:-12}
for f in "$S"/out/replays/*.json; do [ -f "$f" ] && [ -n "$KEEP" ] && mkdir -p "$KEEP" && cp "$f" "$KEEP/"; done
exit 0
