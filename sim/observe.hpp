#ifndef NIXSIM_OBSERVE_HPP
#define NIXSIM_OBSERVE_HPP
#include "node.hpp"
namespace nix { class File; class DataArray; class Variant; }
namespace sim {
struct ObsOpts {
    bool check_lookups;   // evaluate C03.agree / C03.unique while walking
    bool check_dims;      // evaluate C13.gapfree / C13.sorted-positive while walking
    bool read_data;       // read array data / frame cells / property values in full
    ObsOpts() : check_lookups(false), check_dims(false), read_data(true) {}
};
Node observe(const nix::File &f, const ObsOpts &opt, std::vector<std::string> *viol, uint64_t *getters);
std::string variant_str(const nix::Variant &v);
std::string read_array_raw(const nix::DataArray &da, bool &ok);
}
#endif
