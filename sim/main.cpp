// nixsim command line: worker (zygote; one forked process per run), plan, exec.
#include "engine.hpp"
#include <cstdio>
#include <cstdlib>
#include <cstring>
#include <csignal>
#include <fcntl.h>
#include <dirent.h>
#include <unistd.h>
#include <sys/mman.h>
#include <sys/stat.h>
#include <sys/wait.h>
#include <sys/syscall.h>
#include <sstream>
#include <fstream>
#include <exception>

extern "C" __attribute__((used)) const char *__asan_default_options() {
    return "exitcode=77:detect_leaks=0:abort_on_error=0:allocator_may_return_null=1:detect_stack_use_after_return=0";
}
extern "C" __attribute__((used)) const char *__ubsan_default_options() {
    return "print_stacktrace=1:halt_on_error=1:exitcode=77";
}

#ifdef NIXSIM_COV
extern "C" void __gcov_dump(void);
#endif
namespace sim {
int run_special(World &w, const Plan &p, const std::string &dir);   // special.cpp
bool lane_is_special(const std::string &lane);

struct Progress { volatile int op_index; volatile int op_kind; volatile int phase; };
Progress *g_prog = nullptr;
void progress(int idx, int kind) { if (g_prog) { g_prog->op_index = idx; g_prog->op_kind = kind; } }
}

using namespace sim;

static std::string jesc(const std::string &s) {
    std::string o;
    for (unsigned char c : s) {
        if (c == '"' || c == '\\') { o += '\\'; o += (char) c; }
        else if (c < 32 || c >= 127) { char b[8]; snprintf(b, sizeof b, "\\u%04x", c); o += b; }
        else o += (char) c;
    }
    return o;
}

static void wipe_dir(const std::string &dir) {
    DIR *d = opendir(dir.c_str());
    if (!d) return;
    while (struct dirent *e = readdir(d)) {
        if (e->d_name[0] == '.') continue;
        std::string p = dir + "/" + e->d_name;
        syscall(SYS_unlink, p.c_str());
    }
    closedir(d);
}

static std::string prop_of_oracle(const std::string &o) { size_t d = o.find('.'); return d == std::string::npos ? o : o.substr(0, d); }

static std::string result_json(const World &w, const Plan &p, long idx, uint64_t seed) {
    std::ostringstream o;
    Hash shape;
    for (auto &op : p.ops) { shape.u64((uint64_t) op.kind); if (op.kind == OP_xp) { shape.u64((uint64_t) (op.a[0] % 4)); shape.u64((uint64_t) (op.a[1] % 10)); shape.u64((uint64_t) (op.a[2] % 11)); } }
    Hash ev = w.evh;
    ev.u64(disk_event_hash());
    o << "{\"idx\":" << idx << ",\"seed\":" << seed << ",\"lane\":\"" << p.swarm.lane << "\"";
    std::string verdict = "ok";
    if (w.viol.set) verdict = prop_of_oracle(w.viol.oracle) == w.lane_prop ? "viol" : "foreign";
    o << ",\"verdict\":\"" << verdict << "\"";
    if (w.viol.set) {
        o << ",\"oracle\":\"" << jesc(w.viol.oracle) << "\",\"op_index\":" << w.viol.op_index << ",\"op\":\"" << jesc(w.viol.op)
          << "\",\"arg_class\":\"" << jesc(w.viol.arg_class) << "\",\"detail\":\"" << jesc(w.viol.detail.substr(0, 600)) << "\"";
    }
    o << ",\"hash\":\"" << hex64(ev.h) << "\",\"shape\":\"" << hex64(shape.h) << "\",\"nops\":" << p.ops.size()
      << ",\"final_state\":\"" << hex64(w.have_last ? node_hash(w.last, true) : 0) << "\",\"nstates\":" << w.state_hashes.size()
      << ",\"ntriples\":" << w.triples.size();
    o << ",\"triples\":[";
    { int k = 0; for (auto t : w.triples) { if (k) o << ","; o << "\"" << hex64(t) << "\""; if (++k >= 48) break; } }
    o << "],\"states\":[";
    { int k = 0; for (auto t : w.state_hashes) { if (k) o << ","; o << "\"" << hex64(t) << "\""; if (++k >= 12) break; } }
    o << "],\"cnt\":{";
    bool first = true;
    for (auto &kv : w.cnt.c) { if (!first) o << ","; first = false; o << "\"" << jesc(kv.first) << "\":" << kv.second; }
    const DiskCounters &d = disk_counters();
    o << (first ? "" : ",") << "\"disk.opens\":" << d.opens << ",\"disk.opens_write\":" << d.opens_write << ",\"disk.closes\":" << d.closes
      << ",\"disk.preads\":" << d.preads << ",\"disk.pwrites\":" << d.pwrites << ",\"disk.ftruncates\":" << d.ftruncates << ",\"disk.flocks\":" << d.flocks
      << ",\"disk.bytes_written\":" << d.bytes_written << ",\"disk.perturb_fired\":" << d.perturb_fired
      << ",\"clock.reads\":" << clock_reads() << ",\"entropy.draws\":" << entropy_draws() << ",\"h5knob.applied\":" << h5knob_applied() << ",\"h5knob.small_transfer_buffer_calls\":" << h5knob_tbuf_applied() << ",\"h5knob.small_metadata_cache_opens\":" << h5knob_mdc_applied()
      << ",\"getters\":" << w.getters;
    o << "}}";
    return o.str();
}

static void on_terminate() {
    const char m[] = "nixsim: std::terminate called\n";
    if (write(2, m, sizeof(m) - 1) < 0) {}
    _exit(78);
}

// executes one plan in this process and returns the JSON result
static std::string run_plan(const Plan &p, const std::string &dir, long idx, uint64_t seed) {
    std::set_terminate(on_terminate);
    disk_set_dir(dir);
    disk_reset_hash();
    h5_quiet();
    World *w = new World();     // never destroyed: the process _exits
    w->lane_prop = lane_property(p.swarm.lane);
    if (lane_is_special(p.swarm.lane)) run_special(*w, p, dir);
    else w->run(p, dir);
    return result_json(*w, p, idx, seed);
}

static uint64_t run_seed(uint64_t base, const std::string &lane, long idx) {
    uint64_t l = 0; for (char c : lane) l = l * 131 + (unsigned char) c;
    return mix3(base, l, (uint64_t) idx);
}

static std::string read_file_head(const std::string &path, size_t max) {
    std::string d; disk_read_all(path, d);
    if (d.size() > max) d.resize(max);
    return d;
}

// summary of a sanitizer report: the SUMMARY line or the first "runtime error" line
static std::string san_summary(const std::string &err) {
    std::istringstream i(err);
    std::string line, first, summary, frame;
    while (std::getline(i, line)) {
        if (first.empty() && (line.find("runtime error:") != std::string::npos || line.find("ERROR: AddressSanitizer") != std::string::npos || line.find("terminate") != std::string::npos)) first = line;
        if (line.find("SUMMARY:") != std::string::npos && summary.empty()) summary = line;
        if (frame.empty() && line.find("    #") != std::string::npos && line.find("/repo/") != std::string::npos) frame = line;
    }
    std::string s = first;
    if (!summary.empty()) s += " | " + summary;
    if (!frame.empty()) s += " | " + frame;
    return s.substr(0, 700);
}

static int fork_once(const Plan &p, const std::string &dir, long idx, uint64_t seed, std::string &out_line, bool wipe);

static std::string json_field(const std::string &j, const std::string &key) {
    size_t p = j.find("\"" + key + "\":");
    if (p == std::string::npos) return "";
    p += key.size() + 3;
    if (p < j.size() && j[p] == '"') { size_t e = j.find('"', p + 1); return j.substr(p + 1, e - p - 1); }
    size_t e = j.find_first_of(",}", p);
    return j.substr(p, e - p);
}

// A run of a twin plan is executed twice, each time in its own process: once as usual (observing after every step) and once without
// reading anything back before the plan's final restart.  What the file shows after that restart must be the same: the tree a
// reopened file exposes is a function of the history of operations, not of how much the program looked at it meanwhile (C02).
static int fork_run(const Plan &p, const std::string &dir, long idx, uint64_t seed, std::string &out_line) {
    if (!plan_is_twin(p)) return fork_once(p, dir, idx, seed, out_line, true);
    int rc = fork_once(p, dir, idx, seed, out_line, false);
    if (rc != 0 || json_field(out_line, "verdict") != "ok") { wipe_dir(dir); return rc; }
    std::string obs_doc; bool have_a = disk_read_all(dir + "/final.observed.txt", obs_doc);
    wipe_dir(dir);
    if (!have_a) return rc;
    std::string line_b;
    g_blind_twin = true;
    int rcb = fork_once(p, dir, idx, seed, line_b, false);
    g_blind_twin = false;
    std::string blind_doc; bool have_b = disk_read_all(dir + "/final.unobserved.txt", blind_doc);
    wipe_dir(dir);
    std::string vb = json_field(line_b, "verdict");
    if (rcb == 0 && vb == "ok" && !have_b) return rc;      // the plan does not end with a restart (minimisation candidates): nothing to compare
    if (rcb == 0 && vb == "ok" && have_b && blind_doc == obs_doc) {
        size_t c = out_line.rfind("}}");
        if (c != std::string::npos) out_line.insert(c, ",\"twin.unobserved_history_compared\":1");
        return rc;
    }
    // the unobserved twin failed, crashed or shows something else
    std::string detail, oracle = "C02.restart-equal", op = "reopen", ac = "unobserved-history";
    long opi = (long) p.ops.size() - 1;
    if (rcb != 0 || vb != "ok") {
        detail = "the same plan executed without reading anything back before the final restart: " + json_field(line_b, "oracle") + " " + json_field(line_b, "detail");
        std::string oi = json_field(line_b, "op_index"); if (!oi.empty()) opi = atol(oi.c_str());
        std::string o2 = json_field(line_b, "op"); if (!o2.empty()) op = o2;
    } else {
        size_t i = 0, j = 0; int ln = 1; std::string l1, l2;
        while (i < obs_doc.size() && j < blind_doc.size()) {
            size_t e1 = obs_doc.find('\n', i), e2 = blind_doc.find('\n', j);
            l1 = obs_doc.substr(i, e1 - i); l2 = blind_doc.substr(j, e2 - j);
            if (l1 != l2 || e1 == std::string::npos || e2 == std::string::npos) break;
            i = e1 + 1; j = e2 + 1; ln++;
        }
        detail = "after the final restart the file shows something else when the history was executed without reading anything back meanwhile: line " + std::to_string(ln) + " '" + l1.substr(0, 100) + "' (observed history) vs '" + l2.substr(0, 100) + "' (unobserved history)";
    }
    std::ostringstream o;
    Hash shape; for (auto &x : p.ops) shape.u64((uint64_t) x.kind);
    Hash hh; hh.str(obs_doc); hh.str(blind_doc); hh.str(json_field(line_b, "oracle")); hh.str(json_field(line_b, "op_index")); hh.str(json_field(line_b, "verdict"));
    o << "{\"idx\":" << idx << ",\"seed\":" << seed << ",\"lane\":\"" << p.swarm.lane << "\",\"verdict\":\"viol\",\"oracle\":\"" << oracle << "\",\"op_index\":" << opi
      << ",\"op\":\"" << op << "\",\"arg_class\":\"" << ac << "\",\"detail\":\"" << jesc(detail.substr(0, 600)) << "\",\"hash\":\"" << hex64(hh.h)
      << "\",\"shape\":\"" << hex64(shape.h) << "\",\"nops\":" << p.ops.size() << ",\"final_state\":\"0\",\"nstates\":0,\"ntriples\":0,\"triples\":[],\"states\":[],\"cnt\":{\"twin.unobserved_history_differs\":1}}";
    out_line = o.str();
    return 1;
}

static int fork_once(const Plan &p, const std::string &dir, long idx, uint64_t seed, std::string &out_line, bool wipe) {
    int fds[2];
    if (pipe(fds) != 0) return -1;
    std::string errpath = dir + ".stderr";
    g_prog->op_index = -1; g_prog->op_kind = -1;
    pid_t pid = fork();
    if (pid == 0) {
        close(fds[0]);
        int efd = (int) syscall(SYS_openat, AT_FDCWD, errpath.c_str(), O_WRONLY | O_CREAT | O_TRUNC, 0644);
        if (efd >= 0) { dup2(efd, 2); }
        // a run that takes this long is reported as a hang; the driver re-executes such a plan alone with a far longer limit before
        // it believes it (a loaded machine must not turn a slow run into a violation)
        { const char *al = getenv("NIXSIM_ALARM"); alarm(al ? (unsigned) atoi(al) : (p.swarm.big ? 240u : 120u)); }
        std::string res = run_plan(p, dir, idx, seed);
        res += "\n";
        size_t off = 0;
        while (off < res.size()) { ssize_t n = write(fds[1], res.data() + off, res.size() - off); if (n <= 0) break; off += (size_t) n; }
#ifdef NIXSIM_COV
        __gcov_dump();
#endif
        _exit(0);
    }
    close(fds[1]);
    std::string res;
    char buf[8192];
    for (;;) { ssize_t n = read(fds[0], buf, sizeof buf); if (n < 0 && errno == EINTR) continue; if (n <= 0) break; res.append(buf, (size_t) n); }
    close(fds[0]);
    int status = 0;
    while (waitpid(pid, &status, 0) < 0 && errno == EINTR) {}
    bool clean = WIFEXITED(status) && WEXITSTATUS(status) == 0 && !res.empty() && res[res.size() - 1] == '\n';
    if (clean) { out_line = res.substr(0, res.size() - 1); }
    else {
        std::string err = read_file_head(errpath, 20000);
        std::string lane_prop = lane_property(p.swarm.lane);
        int oi = g_prog->op_index, ok = g_prog->op_kind;
        std::string owner = (ok >= 0 && ok < OP_COUNT) ? op_owner(ok) : "C16";
        std::string how;
        if (WIFSIGNALED(status)) how = WTERMSIG(status) == SIGALRM ? "hang" : "signal " + std::to_string(WTERMSIG(status));
        else how = "exit " + std::to_string(WEXITSTATUS(status));
        bool hang = WIFSIGNALED(status) && WTERMSIG(status) == SIGALRM;
        std::string prop = (owner == lane_prop) ? lane_prop : "C16";
        std::string verdict = prop == lane_prop ? "viol" : "foreign";
        std::string summ = san_summary(err);
        std::string fn = hang ? "hang" : "crash";
        size_t in = hang ? std::string::npos : summ.find(" in ");
        if (in != std::string::npos) { size_t e = summ.find_first_of(" (|", in + 4); fn = summ.substr(in + 4, e == std::string::npos ? std::string::npos : e - in - 4); }
        std::ostringstream o;
        Hash shape; for (auto &op : p.ops) shape.u64((uint64_t) op.kind);
        o << "{\"idx\":" << idx << ",\"seed\":" << seed << ",\"lane\":\"" << p.swarm.lane << "\",\"verdict\":\"" << verdict << "\",\"oracle\":\"" << prop << ".crash\",\"op_index\":" << oi
          << ",\"op\":\"" << (ok >= 0 ? op_name(ok) : "-") << "\",\"arg_class\":\"" << jesc(fn) << "\",\"detail\":\"" << jesc(how + ": " + summ) << "\",\"hash\":\"" << hex64(mix3((uint64_t) oi, (uint64_t) ok, 77))
          << "\",\"shape\":\"" << hex64(shape.h) << "\",\"nops\":" << p.ops.size() << ",\"final_state\":\"0\",\"nstates\":0,\"ntriples\":0,\"triples\":[],\"states\":[],\"cnt\":{\"crashed_runs\":1}}";
        out_line = o.str();
    }
    if (wipe) wipe_dir(dir);
    syscall(SYS_unlink, errpath.c_str());
    return clean ? 0 : 1;
}

static std::string make_dir(const std::string &tag) {
    const char *base = getenv("NIXSIM_TMP");
    std::string root = base ? base : "/dev/shm";
    std::string dir = root + "/nixsim-" + tag + "-" + std::to_string((long) getpid());
    mkdir(dir.c_str(), 0755);
    return dir;
}

int main(int argc, char **argv) {
    if (argc < 2) { fprintf(stderr, "usage: nixsim worker|plan|exec|lanes ...\n"); return 64; }
    std::string cmd = argv[1];
    if (cmd == "lanes") { for (auto &l : lane_list()) printf("%s %s\n", l.c_str(), lane_property(l)); return 0; }
    if (cmd == "observe" && argc >= 3) {
        // a separate reader process: open the file (ReadOnly unless "rw" is given), print what the public getters show
        h5_quiet();
        if (argc >= 5) { clock_set(atoll(argv[4])); clock_enable(true); }   // the reader lives in the same simulated time
        try {
            nix::File f = nix::File::open(argv[2], (argc >= 4 && !strcmp(argv[3], "rw")) ? nix::FileMode::ReadWrite : nix::FileMode::ReadOnly);
            ObsOpts o; uint64_t g = 0;
            Node d = observe(f, o, nullptr, &g);
            f.close();
            std::string r = render(d) + "HASH " + hex64(node_hash(d)) + "\n";
            fputs(r.c_str(), stdout);
        } catch (const std::exception &e) {
            printf("THROWS %s\n", e.what());
        }
        fflush(stdout);
#ifdef NIXSIM_COV
        __gcov_dump();
#endif
        _exit(0);
    }
    if (cmd == "plan" && argc >= 6) {
        std::string lane = argv[2]; uint64_t base = strtoull(argv[3], 0, 10); int tier = atoi(argv[4]); long idx = atol(argv[5]);
        Plan p = generate_plan(lane, run_seed(base, lane, idx), tier);
        fputs(plan_to_text(p).c_str(), stdout);
        return 0;
    }
    g_prog = (Progress *) mmap(nullptr, 4096, PROT_READ | PROT_WRITE, MAP_SHARED | MAP_ANONYMOUS, -1, 0);
    if (cmd == "exec" && argc >= 3) {
        // run one plan file in a forked child of this fresh process (same path as the batch)
        std::string text; if (!disk_read_all(argv[2], text)) { fprintf(stderr, "cannot read %s\n", argv[2]); return 64; }
        Plan p; if (!plan_from_text(text, p)) { fprintf(stderr, "bad plan file\n"); return 64; }
        std::string dir = make_dir("x");
        h5_warm();
        std::string line;
        if (getenv("NIXSIM_TRACE")) { fflush(stdout); line = run_plan(p, dir, -1, 0); if (getenv("NIXSIM_KEEP")) { printf("files kept in %s\n", dir.c_str()); fflush(stdout); _exit(0); } wipe_dir(dir); }   // in-process, so that the trace is visible
        else fork_run(p, dir, -1, 0, line);
        rmdir(dir.c_str());
        puts(line.c_str());
        fflush(stdout);
        _exit(0);      // no exit handlers: after an in-process (traced) run libhdf5's atexit clean-up would meet abandoned sessions
    }
    if (cmd == "worker" && argc >= 7) {
        std::string lane = argv[2]; uint64_t base = strtoull(argv[3], 0, 10); int tier = atoi(argv[4]); long from = atol(argv[5]), to = atol(argv[6]);
        long stride = argc >= 8 ? atol(argv[7]) : 1;
        if (!lane_known(lane)) { fprintf(stderr, "unknown lane %s\n", lane.c_str()); return 64; }
        std::string dir = make_dir("w");
        h5_warm();
        if (getenv("NIXSIM_DIRTY_ZYGOTE")) {
            // selfcheck: make the zygote's heap and HDF5 state different before any run
            std::vector<std::string *> junk; for (int i = 0; i < 20000; i++) junk.push_back(new std::string((size_t) (i % 97), 'x'));
            for (size_t i = 0; i < junk.size(); i += 2) delete junk[i];
        }
        for (long idx = from; idx < to; idx += stride) {
            uint64_t seed = run_seed(base, lane, idx);
            Plan p = generate_plan(lane, seed, tier);
            std::string line;
            fork_run(p, dir, idx, seed, line);
            puts(line.c_str());
            fflush(stdout);
        }
        rmdir(dir.c_str());
        return 0;
    }
    fprintf(stderr, "bad arguments\n");
    return 64;
}
